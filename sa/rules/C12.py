"""C12 Paths resolve under their relativity root; home directories are write-protected (DESIGN.md section 5)."""
import ast
from typing import List, Optional

from ..core import Index, FuncDef, ClassDef, External, AnalysisError, unparse, walk_own, dotted_name, parent
from ..fold import Folder, Record, EnumMember, Ref, is_unknown, single_return_expr
from ..absint import Interp, Hooks, State, K, Sym, Obj, Exc, NONE, ListVal
from ..report import Check
from .. import util
from .common import ForkHooks, labels_of, check_references_complete, expect_enum_value_agreement, \
    check_first_error_wins

PR = 'exactly_lib.tcfs.path_relativity'
RRT = 'exactly_lib.tcfs.relativity_root'
RPO = 'exactly_lib.tcfs.relative_path_options'
ROC = 'exactly_lib.type_val_deps.types.path.rel_opts_configuration'
PDD = 'exactly_lib.type_val_deps.types.path.path_ddvs'
PREL = 'exactly_lib.impls.types.path.parse_relativity'

WRITABLE = {'REL_ACT', 'REL_TMP', 'REL_CWD'}


def check(c: Check):
    c.explanation = (
        'Constant folding of the relativity tables (each relativity has one resolver whose own relativity and '
        'directory getter agree with its key; the per-partition enums agree by value; option infos point at the '
        'resolver of their key), folding of the destination configurations of file / dir / copy (accepted set within '
        '{act, tmp, cd}, absolute not accepted) and the parsers they are given to, immutability of the shared '
        'relativity sets and of path values (no in-place mutation, no state written after construction), decision '
        'table of the relativity restriction, control flow of option acceptance, plumbing of the accepted variants '
        'into the restriction of every symbol reference a path argument can produce, completeness of reported '
        'references, and the root / suffix joins. Decides clauses a-d of DESIGN.md C12; not the resolved path value.')
    clause_a(c)
    clause_b(c)
    clause_c(c)
    clause_d(c)
    clause_e(c)
    clause_f(c)
    from .common import sweep_records
    sweep_records(c, 'C12-rec', ['exactly_lib.tcfs', 'exactly_lib.type_val_deps.types.path'], floor=5)


# ---------------------------------------------------------------- a
GETTER = {'REL_ACT': 'SandboxDs.act_dir', 'REL_TMP': 'SandboxDs.user_tmp_dir', 'REL_RESULT': 'SandboxDs.result_dir',
          'REL_HDS_CASE': 'HomeDs.case_dir', 'REL_HDS_ACT': 'HomeDs.act_dir'}


def clause_a(c: Check):
    ix, fo = c.ix, c.fo
    rot = ix.cls(PR + ':RelOptionType')
    rsds = ix.cls(PR + ':RelSdsOptionType')
    rnon = ix.cls(PR + ':RelNonHdsOptionType')
    rhds = ix.cls(PR + ':RelHdsOptionType')
    for sub in (rsds, rnon, rhds):
        shared = expect_enum_value_agreement(c, 'C12-a', sub, rot)
        c.expect(set(fo.enum_members(sub)) <= set(fo.enum_members(rot)), 'C12-a', 'enum-subset/' + sub.name,
                 '%s has members unknown to RelOptionType' % sub.name, sub.loc())
    # resolvers
    tables = [(RRT + ':REL_SDS_RESOLVERS', rsds)]
    for path, enum_cls in tables:
        tab = fo.fold_path(path)
        c.require(isinstance(tab, dict), 'C12-a: %s not folded' % path)
        for name, m in sorted(fo.enum_members(enum_cls).items()):
            r = tab.get(m)
            key = 'REL_SDS_RESOLVERS/' + name
            if not isinstance(r, Record):
                c.bad('C12-a', key, 'relativity %s has no root resolver' % name, RRT)
                continue
            own = r.args.get('relativity_type')
            fun = r.args.get('sds_2_root_fun')
            got = fun.d.key.split(':')[-1] if isinstance(fun, Ref) else repr(fun)
            c.expect(own == m and got == GETTER[name], 'C12-a', key,
                     'the resolver registered for %s resolves %s with %s (expected %s)' % (name, own, got, GETTER[name]),
                     RRT, detail=got)
    for var, name, enum_cls in (('resolver_for_hds_case', 'REL_HDS_CASE', rhds), ('resolver_for_hds_act', 'REL_HDS_ACT', rhds),
                                ('resolver_for_act', 'REL_ACT', rsds), ('resolver_for_tmp_user', 'REL_TMP', rsds),
                                ('resolver_for_result', 'REL_RESULT', rsds)):
        r = fo.fold_path(RRT + ':' + var)
        ok = isinstance(r, Record)
        if ok:
            own = r.args.get('relativity_type')
            fun = r.args.get('hds_2_root_fun', r.args.get('sds_2_root_fun'))
            got = fun.d.key.split(':')[-1] if isinstance(fun, Ref) else repr(fun)
            ok = isinstance(own, EnumMember) and own.name == name and own.cls == enum_cls and got == GETTER[name]
        c.expect(ok, 'C12-a', 'resolver/' + var, '%s is %r' % (var, r), RRT)
    # -rel-cd: resolved at the time of use
    f = ix.func(RRT + ':RelNonHdsRootResolverForCwd.from_cwd')
    calls = [d.dotted for _, d in util.calls_in(ix, f) if isinstance(d, External)]
    c.expect(any(x.endswith('.cwd') or x == 'os.getcwd' for x in calls) and not f.decorators, 'C12-a',
             'from_cwd/at-time-of-use', 'the current directory is not read when the path is resolved (%s)' % calls, f.loc())
    cw = ix.cls(RRT + ':RelNonHdsRootResolverForCwd')
    init = ix.class_member(cw, '__init__')
    stores_cwd = any(isinstance(d, External) and (d.dotted.endswith('.cwd') or d.dotted == 'os.getcwd')
                     for _, d in util.calls_in(ix, init)) if isinstance(init, FuncDef) else False
    c.expect(not stores_cwd, 'C12-a', 'from_cwd/not-captured-at-construction',
             'the current directory is captured when the resolver is constructed', cw.loc())
    # ... and nothing but the current directory is ever given for it: on every path (the reading of the current
    # directory may fail - the directory was removed) what `from_non_hds` returns is the result of that reading
    fnh = ix.class_member(cw, 'from_non_hds')
    c.require(isinstance(fnh, FuncDef), 'C12-a: RelNonHdsRootResolverForCwd.from_non_hds not found')

    class HC(Hooks):
        def inline(self, fd, st):
            return fd.cls is cw

        def may_raise(self, callee_def, node, st):
            if isinstance(callee_def, External) and (callee_def.dotted.endswith('.cwd') or callee_def.dotted == 'os.getcwd'):
                return [External('builtins.FileNotFoundError')]
            return []

    n_cw = 0
    for p in util.func_paths(ix, fo, fnh, HC()):
        if p.kind != 'return':
            continue
        n_cw += 1
        k = util.origin_call_key(util.root_sym(p.val)) if isinstance(p.val, Sym) else None
        c.expect(k is not None and (str(k).endswith('.cwd') or str(k) == 'os.getcwd'), 'C12-a',
                 'from_non_hds/is-the-current-directory',
                 'for -rel-cd the root given is %s on some path, not the current directory: a path resolves to a '
                 'directory that is not the documented root' % util.describe(p.val), fnh.loc())
    c.floor('C12-a', 'returning paths of the -rel-cd root resolver', n_cw, 1)
    # option infos: REL_OPTIONS_MAP[k].root_resolver is the resolver of k
    om = fo.fold_path(RPO + ':REL_OPTIONS_MAP')
    c.require(isinstance(om, dict), 'C12-a: REL_OPTIONS_MAP not folded')
    names = set()
    for name, m in sorted(fo.enum_members(rot).items()):
        info = om.get(m)
        key = 'REL_OPTIONS_MAP/' + name
        if not isinstance(info, Record):
            c.bad('C12-a', key, 'relativity %s has no option info' % name, RPO)
            continue
        res = fo.record_attr(info, 'root_resolver')
        rel = fo.record_attr(res, 'relativity_type') if isinstance(res, Record) else None
        c.expect(isinstance(rel, EnumMember) and rel.name == name, 'C12-a', key,
                 'option %s is resolved with the root resolver of %s' % (name, rel), RPO, detail=str(rel))
        on = fo.record_attr(info, 'option_name')
        long = fo.attr_of_value(on, 'long') if not is_unknown(on) else on
        if isinstance(long, str):
            c.expect(long not in names, 'C12-a', key + '/distinct-option-name',
                     'option name %s is used for two relativities' % long, RPO)
            names.add(long)
    c.floor('C12-a', 'distinct relativity option names', len(names), 6)
    # builtin directory symbols: the symbol named as the directory of a relativity is the root of that relativity
    bs = 'exactly_lib.cli_default.program_modes.test_case.builtin_symbols.test_case_dir_symbols'
    syms = fo.fold_path(bs + ':ALL')
    c.require(isinstance(syms, (tuple, list)) and all(isinstance(x, Record) for x in syms),
              'C12-a: the builtin directory symbols (%s:ALL) are not folded' % bs)
    dir_name_of = {}
    for m, info in om.items():
        if isinstance(info, Record):
            dn = fo.attr_of_value(info, 'directory_name')
            res = fo.record_attr(info, 'root_resolver')
            if isinstance(dn, str) and isinstance(res, Record):
                dir_name_of[m.name] = (dn, res)
    c.require(len(dir_name_of) >= 5, 'C12-a: directory names of the relativities not folded (%d)' % len(dir_name_of))
    seen_names = []
    for x in syms:
        name = fo.record_attr(x, 'name')
        sdv = fo.record_attr(x, 'sdv')
        ddv = next((v for v in sdv.args.values() if isinstance(v, Record)), None) if isinstance(sdv, Record) else None
        res = ddv.args.get('rel_root_resolver') if isinstance(ddv, Record) else None
        suffix = ddv.args.get('path_suffix') if isinstance(ddv, Record) else None
        c.require(isinstance(name, str) and isinstance(res, Record),
                  'C12-a: builtin directory symbol not understood: %r' % (x,))
        seen_names.append(name)
        want = [rel for rel, (dn, r) in dir_name_of.items() if dn == name]
        got = [rel for rel, (dn, r) in dir_name_of.items() if r == res]
        c.expect(len(want) == 1 and got == want and isinstance(suffix, Record) and suffix.cls.name == 'PathPartDdvAsNothing',
                 'C12-a', 'builtin-dir-symbol/' + name,
                 'the builtin symbol %s is the root directory of %s (expected: of %s, the relativity whose directory '
                 'has that name), suffix %r' % (name, got, want, suffix), bs)
    c.expect(sorted(seen_names) == sorted(dn for dn, _ in dir_name_of.values()), 'C12-a', 'builtin-dir-symbols/complete',
             'builtin directory symbols %s; directories with a name %s' % (
                 sorted(seen_names), sorted(dn for dn, _ in dir_name_of.values())), bs)
    # the same names as environment variables / replaced strings: name -> directory of that relativity
    ts = 'exactly_lib.tcfs.tcds_symbols'
    n_env = 0
    for fname in ('symbols_rel_hds', 'set_at_setup_main', 'set_at_before_assert_main', 'set_at_assert'):
        f = ix.try_lookup(ts + ':' + fname)
        if not isinstance(f, FuncDef):
            continue
        r = single_return_expr(f)
        if not isinstance(r, ast.Dict):
            continue
        par = f.positional_params()[0].arg
        for k, v in zip(r.keys, r.values):
            kn = fo.fold(f.module, f, k)
            # str(<param>.<getter>)
            g = v.args[0] if isinstance(v, ast.Call) and unparse(v.func) == 'str' and len(v.args) == 1 else v
            getter = g.attr if isinstance(g, ast.Attribute) and isinstance(g.value, ast.Name) and g.value.id == par else None
            want = [GETTER[rel].split('.')[-1] for rel, (dn, _) in dir_name_of.items() if dn == kn and rel in GETTER]
            n_env += 1
            c.expect(getter is not None and want == [getter], 'C12-a', 'env-var-of-directory/%s' % kn,
                     '%s gives the variable %s the value %s (expected the directory %s)' % (fname, kn, unparse(v), want), f.loc())
    c.floor('C12-a', 'directory environment variables', n_env, 4)
    # path values are stateless: resolved values are never cached on the object
    for m in (ix.module(PDD), ix.module('exactly_lib.type_val_deps.types.path.impl.path_base')):
        for cls in m.all_classes:
            for meth in cls.methods.values():
                if meth.name in ('__init__', '__new__') or meth.self_name is None:
                    continue
                for n in ast.walk(meth.node):
                    tg = []
                    if isinstance(n, ast.Assign):
                        tg = n.targets
                    elif isinstance(n, (ast.AugAssign, ast.AnnAssign)):
                        tg = [n.target]
                    for t in tg:
                        for x in ast.walk(t):
                            if isinstance(x, ast.Attribute) and isinstance(x.value, ast.Name) and x.value.id == meth.self_name \
                                    and isinstance(x.ctx, ast.Store):
                                c.bad('C12-a', 'stateless-path/%s.%s' % (cls.key, x.attr),
                                      'a path value stores state (%s) in %s: a resolved location (e.g. the current '
                                      'directory at first use) would be reused later' % (x.attr, meth.name),
                                      '%s:%d' % (m.relpath, n.lineno))
            c.ok('C12-a', 'stateless-path/' + cls.key)


# ---------------------------------------------------------------- b
DESTINATIONS = [
    ('file', 'exactly_lib.impls.instructions.multi_phase.new_file', 'REL_OPT_ARG_CONF', 'EmbryoParser', '_path_parser'),
    ('dir', 'exactly_lib.impls.instructions.multi_phase.new_dir', 'RELATIVITY_VARIANTS', 'EmbryoParser', '_path_parser'),
    ('copy', 'exactly_lib.impls.instructions.multi_phase.copy', 'REL_OPTION_ARG_CONF_FOR_DESTINATION', 'EmbryoParser',
     '_dst_path_parser'),
]
_SET_MUTATORS = {'add', 'update', 'discard', 'remove', 'clear', 'pop', 'intersection_update', 'difference_update',
                 'symmetric_difference_update', 'append', 'extend', 'insert'}


def accepted_of(c: Check, conf) -> Optional[tuple]:
    fo = c.fo
    if not isinstance(conf, Record):
        return None
    opts = fo.record_attr(conf, 'options') if conf.cls.name == 'RelOptionArgumentConfiguration' else conf
    if not isinstance(opts, Record):
        return None
    var = fo.record_attr(opts, 'accepted_relativity_variants')
    if not isinstance(var, Record):
        return None
    types = fo.record_attr(var, 'rel_option_types')
    ab = fo.record_attr(var, 'absolute')
    dflt = fo.record_attr(opts, 'default_option')
    if isinstance(types, (frozenset, set, list, tuple)) and isinstance(ab, bool):
        return frozenset(m.name for m in types), ab, getattr(dflt, 'name', None)
    return None


def clause_b(c: Check):
    ix, fo = c.ix, c.fo
    v = fo.fold_path(ROC + ':RELATIVITY_VARIANTS_FOR_FILE_CREATION')
    types = fo.record_attr(v, 'rel_option_types') if isinstance(v, Record) else None
    ab = fo.record_attr(v, 'absolute') if isinstance(v, Record) else None
    got = sorted(m.name for m in types) if isinstance(types, (frozenset, set)) else types
    c.expect(got == sorted(WRITABLE) and ab is False, 'C12-b', 'RELATIVITY_VARIANTS_FOR_FILE_CREATION',
             'file creation accepts %s, absolute=%s (documented: act, tmp, cd only)' % (got, ab), ROC)
    c.sample({'RELATIVITY_VARIANTS_FOR_FILE_CREATION': got})
    pp = ix.cls('exactly_lib.impls.types.path.parse_path:PathParser')
    for label, mod, const, parser_cls, attr in DESTINATIONS:
        conf = fo.fold_path(mod + ':' + const)
        acc = accepted_of(c, conf)
        key = 'destination/' + label
        if acc is None:
            raise AnalysisError('C12-b: destination configuration %s.%s does not fold (%r)' % (mod, const, conf))
        types, ab, dflt = acc
        c.expect(types <= WRITABLE and not ab and dflt in WRITABLE, 'C12-b', key + '/accepted',
                 'the destination of `%s` accepts %s (absolute: %s, default %s): only act, tmp and cd may be written' % (
                     label, sorted(types), ab, dflt), mod, detail=str(sorted(types)))
        # ... and that constant configures the parser whose result becomes the destination
        pc = ix.cls(mod + ':' + parser_cls)
        ok = False
        for meth, val, st in ix.self_attr_assignments(pc, attr):
            if isinstance(val, ast.Call) and ix.callee(meth.module, meth, val) == pp and val.args:
                ok = unparse(val.args[0]) == const
        c.expect(ok, 'C12-b', key + '/parser-uses-it',
                 'the destination path parser of `%s` is not configured with %s' % (label, const), pc.loc())
    # the destination SDV is the one parsed by that parser, and the main step writes at it
    for label, mod, const, parser_cls, attr in DESTINATIONS:
        pc = ix.cls(mod + ':' + parser_cls)
        uses = 0
        for meth in pc.methods.values():
            for n in ast.walk(meth.node):
                if isinstance(n, ast.Attribute) and n.attr == attr and isinstance(n.ctx, ast.Load):
                    uses += 1
        c.expect(uses >= 1, 'C12-b', 'destination/%s/parser-is-used' % label,
                 'the destination parser of `%s` is never used' % label, pc.loc())
    # shared relativity sets are never mutated in place
    n_mod = 0
    for m in ix.modules_mentioning('rel_option_types', 'accepted_options', 'RELATIVITY_VARIANTS', 'DEPENDENCY_DICT'):
        n_mod += 1
        for f in m.all_funcs:
            shared = set()
            for name, bs in f.local_bindings().items():
                for b in bs:
                    if b[0] == 'assign' and b[1] is not None and _is_shared_set_expr(ix, fo, m, f, b[1]):
                        shared.add(name)
            for n in ast.walk(f.node):
                bad = None
                if isinstance(n, ast.AugAssign):
                    t = n.target
                    if (isinstance(t, ast.Name) and t.id in shared) or _is_shared_set_expr(ix, fo, m, f, t):
                        bad = 'augmented assignment %s' % unparse(n)
                elif isinstance(n, ast.Call) and isinstance(n.func, ast.Attribute) and n.func.attr in _SET_MUTATORS:
                    r = n.func.value
                    if (isinstance(r, ast.Name) and r.id in shared) or _is_shared_set_expr(ix, fo, m, f, r):
                        bad = 'call %s' % unparse(n.func)
                if bad:
                    c.bad('C12-b', 'shared-set-mutated@' + f.key,
                          'a relativity set shared by all instructions is modified in place (%s): every configuration '
                          'built from it changes' % bad, '%s:%d' % (m.relpath, n.lineno))
    c.ok('C12-b', 'shared-sets/not-mutated', '%d modules using relativity sets' % n_mod)
    c.floor('C12-b', 'modules using relativity sets', n_mod, 10)
    # PathRelativityVariants built from a module-level *mutable* set literal that is also exposed: informational
    # source relativities: REL_RESULT only after act
    sfr = ix.try_lookup('exactly_lib.impls.instructions.multi_phase.utils.source_file_relativities:src_rel_opt_arg_conf_for_phase')
    if isinstance(sfr, FuncDef):
        pn = [p.arg for p in sfr.positional_params()]
        flag = [p for p in pn if 'after_act' in p]
        c.require(flag, 'C12-b: phase flag of src_rel_opt_arg_conf_for_phase not found')
        for after in (False, True):
            args = {flag[0]: K(after)}
            outs = set()
            for p in util.func_paths(ix, fo, sfr, _InlineROC(), args=args):
                v = p.val.v if p.kind == 'return' and isinstance(p.val, K) else None
                acc = accepted_of(c, v)
                outs.add(('REL_RESULT' in acc[0]) if acc else '?')
            c.expect(outs == {after}, 'C12-b', 'source-relativities/result-only-after-act/%s' % after,
                     'source paths %s the result directory %s the act phase (%s)' % (
                         'accept' if True in outs else 'do not accept', 'after' if after else 'before', outs), sfr.loc())


class _InlineROC(Hooks):
    def inline(self, fd, st):
        return fd.module.name in (ROC, 'exactly_lib.impls.instructions.multi_phase.utils.source_file_relativities',
                                  PR)


def _is_shared_set_expr(ix, fo, m, f, node) -> bool:
    """expression denoting a relativity set that lives in a shared (module-level) configuration"""
    if isinstance(node, ast.Attribute) and node.attr in ('rel_option_types', 'accepted_options'):
        return True
    if isinstance(node, ast.Subscript) and isinstance(node.value, (ast.Name, ast.Attribute)) \
            and (dotted_name(node.value) or '').split('.')[-1] == 'DEPENDENCY_DICT':
        return True
    return False


# ---------------------------------------------------------------- c
def clause_c(c: Check):
    ix, fo = c.ix, c.fo
    # option acceptance
    f = ix.func(PREL + ':_parse_rel_option_type')
    inv = ix.func(PREL + ':_raise_invalid_option')
    hooks = ForkHooks(ix)
    hooks.fork_on(lambda d, n, cv: d == inv, [('rejected', ('raise', ix.cls(
        'exactly_lib.section_document.element_parsers.instruction_parser_exceptions:SingleInstructionInvalidArgumentException')))])
    seen = set()
    for p in util.func_paths(ix, fo, f, hooks):
        member = [(g, t) for g, t in p.guards if isinstance(g, ast.Compare) and isinstance(g.ops[0], (ast.In, ast.NotIn))
                  and 'accepted_options' in unparse(g)]
        c.expect(len(member) == 1, 'C12-c', '_parse_rel_option_type/membership-test',
                 'the option is not tested against the accepted options of the argument', f.loc())
        if not member:
            continue
        g, truth = member[0]
        accepted = truth if isinstance(g.ops[0], ast.In) else not truth
        seen.add(accepted)
        if accepted:
            c.expect(p.kind == 'return' and 'rejected' not in labels_of(p), 'C12-c', '_parse_rel_option_type/accepted',
                     'an accepted option is rejected', f.loc())
        else:
            c.expect(p.kind == 'raise', 'C12-c', '_parse_rel_option_type/not-accepted',
                     'an option that the argument does not accept is not a syntax error (%s %s)' % (
                         p.kind, util.describe(p.val)), f.loc())
    c.require(seen == {True, False}, 'C12-c: _parse_rel_option_type outcomes %s' % seen)
    body = [s for s in inv.node.body if isinstance(s, ast.Raise)]
    c.expect(bool(body) and inv.node.body[-1] is body[-1], 'C12-c', '_raise_invalid_option/always-raises',
             '_raise_invalid_option can return normally', inv.loc())
    # symbol references produced by a path argument carry the restriction of that argument
    sites = 0
    for fn, key in ((PREL + ':_try_parse_rel_symbol_option', 'rel-symbol-option'),):
        g = ix.func(fn)
        for call, d in util.calls_in(ix, g):
            if isinstance(d, ClassDef) and d.name == 'SymbolReference' and len(call.args) == 2:
                sites += 1
                r = call.args[1]
                ok = isinstance(r, ast.Call) and getattr(ix.callee(g.module, g, r), 'name', None) == \
                     'reference_restrictions_for_path_symbol' and unparse(r.args[0]) == 'options.accepted_relativity_variants'
                c.expect(ok, 'C12-c', 'restriction-plumbing/' + key,
                         'the symbol of -rel SYMBOL is restricted by %s, not by the accepted variants of the argument'
                         % unparse(r), g.loc())
    pm = ix.module('exactly_lib.impls.types.path.parse_path')
    for n in ast.walk(pm.tree):
        if isinstance(n, ast.Call):
            f2 = pm.enclosing_func(n)
            d = ix.callee(pm, f2, n)
            if isinstance(d, FuncDef) and d.name == 'path_or_string_reference_restrictions':
                sites += 1
                a = unparse(n.args[0]) if n.args else ''
                ok = a.endswith('options.accepted_relativity_variants') and ('rel_opt_conf' in a)
                c.expect(ok, 'C12-c', 'restriction-plumbing/%s' % (f2.key.split(':')[-1] if f2 else '?'),
                         'a path-or-string symbol reference is restricted by %s' % a, '%s:%d' % (pm.relpath, n.lineno))
    c.floor('C12-c', 'symbol-reference restriction sites of path arguments', sites, 2)
    # a path that is a reference to a path-or-string symbol: when the symbol is a string, the root is the DEFAULT
    # relativity of the argument that is being parsed - at every place such a path is built
    ref = ix.func('exactly_lib.type_val_deps.types.path.path_sdvs:reference')
    n_ref = 0
    for s in util.call_sites_of(ix, ref):
        n_ref += 1
        b = util.bound_call_args(ref, s.node, skip_first=False) or {}
        a = b.get('default_relativity')
        a = util.resolve_temp(s.func, a) if a is not None else None
        ok = isinstance(a, ast.Attribute) and a.attr == 'default_option' and isinstance(a.value, ast.Attribute) \
            and a.value.attr == 'options'
        c.expect(ok, 'C12-c', 'default-relativity-plumbing/path_sdvs.reference@' + s.where,
                 'a path made from a path-or-string symbol gets the default relativity %s, not the default option of '
                 'the argument being parsed' % ('`%s`' % unparse(a) if a is not None else
                                               'that the function falls back to when none is given'), s.loc)
    c.floor('C12-c', 'paths built from path-or-string symbol references', n_ref, 2)
    sdv_cls = ix.cls('exactly_lib.type_val_deps.types.path.path_sdv_impls.path_from_symbol_reference:'
                     'SdvThatIsIdenticalToReferencedPathOrWithStringValueAsSuffix')
    for s in util.call_sites_of(ix, sdv_cls):
        c.expect(s.where == ref.key, 'C12-c', 'default-relativity-plumbing/who-may-construct@' + s.where,
                 'a path from a path-or-string symbol is constructed in %s, by-passing path_sdvs.reference' % s.where,
                 s.loc)
    # restriction builders pass the variants on
    for fn, inner in ((PREL + ':reference_restrictions_for_path_symbol', 'PathAndRelativityRestriction'),
                      ('exactly_lib.type_val_deps.types.path.references:path_relativity_restriction',
                       'PathAndRelativityRestriction')):
        g = ix.func(fn)
        ok = False
        for call, d in util.calls_in(ix, g):
            if isinstance(d, ClassDef) and d.name == inner:
                ok = unparse(call.args[0]) == g.positional_params()[0].arg
        c.expect(ok, 'C12-c', 'restriction-plumbing/' + g.name, '%s does not restrict by the variants it is given' % g.name,
                 g.loc())
    por = ix.func('exactly_lib.type_val_deps.types.path.references:path_or_string_reference_restrictions')
    parts = {}
    for call, d in util.calls_in(ix, por):
        if isinstance(d, ClassDef) and d.name == 'OrRestrictionPart' and len(call.args) == 2:
            sel = fo.fold(por.module, por, call.args[0])
            parts[getattr(sel, 'name', None)] = unparse(call.args[1])
    c.expect(parts.get('PATH') == 'path_relativity_restriction(%s)' % por.positional_params()[0].arg
             and parts.get('STRING') == 'PATH_COMPONENT_STRING_REFERENCES_RESTRICTION' and len(parts) == 2, 'C12-c',
             'path_or_string_reference_restrictions/parts',
             'parts are %s' % parts, por.loc())
    # the transitive part of a restriction (a string used as a path component is not made from path symbols, however
    # many definitions it is routed through): every reference of every definition is examined - itself and what it
    # refers to in turn - and the first failure is the result
    ci = ix.func('exactly_lib.type_val_deps.sym_ref.w_str_rend_restrictions.reference_restrictions:'
                 'ReferenceRestrictionsOnDirectAndIndirect._check_indirect')
    check_first_error_wins(
        c, 'C12-c', ci,
        lambda d, n, cv: isinstance(n.func, ast.Attribute) and (
            (n.func.attr == 'is_satisfied_by' and isinstance(n.func.value, ast.Attribute) and n.func.value.attr == '_indirect')
            or d == ci),
        per_element=2)
    # the restriction itself: decision table over (absolute?, relativity in accepted?)
    isb = ix.func('exactly_lib.tcfs.relativity_validation:is_satisfied_by')
    spr = ix.cls(PR + ':SpecificPathRelativity')
    prv = ix.cls(PR + ':PathRelativityVariants')
    rot = fo.enum_members(ix.cls(PR + ':RelOptionType'))

    class H(Hooks):
        def inline(self, fd, st):
            return fd.module.name == PR

    for label, rel, accepted, ab, want in (
            ('absolute/accepted', None, frozenset(), True, True),
            ('absolute/not-accepted', None, frozenset(rot.values()), False, False),
            ('relative/in-set', rot['REL_TMP'], frozenset([rot['REL_TMP'], rot['REL_ACT']]), False, True),
            ('relative/not-in-set', rot['REL_HDS_CASE'], frozenset([rot['REL_TMP'], rot['REL_ACT']]), True, False),
            ('relative/result-not-in-set', rot['REL_RESULT'], frozenset([rot['REL_TMP'], rot['REL_ACT'], rot['REL_CWD']]),
             False, False)):
        it = Interp(ix, fo, H())
        st = State()
        objs = it.instantiate(spr, st, {'relative': K(rel)})
        o, st = objs[0]
        var = Record(prv, {'rel_option_types': accepted, 'absolute': ab})
        outs = set()
        for p in it.run_function(isb, args={isb.positional_params()[0].arg: o, isb.positional_params()[1].arg: K(var)},
                                 st=st):
            outs.add(p.val.v if p.kind == 'return' and isinstance(p.val, K) else util.describe(p.val))
        c.expect(outs == {want}, 'C12-c', 'relativity-restriction/' + label,
                 'a path that is %s is %s (expected %s)' % (label, outs, 'accepted' if want else 'rejected'), isb.loc())
    # PathAndRelativityRestriction resolves the symbol and tests its relativity with that function
    par = ix.func('exactly_lib.type_val_deps.sym_ref.w_str_rend_restrictions.value_restrictions:'
                  'PathAndRelativityRestriction.is_satisfied_by')
    hooks = ForkHooks(ix)
    hooks.fork_on(lambda d, n, cv: d == isb, [('sat', lambda: K(True)), ('unsat', lambda: K(False))])
    seen = set()
    for p in util.func_paths(ix, fo, par, hooks):
        labs = labels_of(p)
        if not labs:
            continue  # not a path sdv: type error branch
        seen.add(labs[0])
        ev = [e for e in p.trace if e.kind == 'call' and 'label' in e.data][0]
        a = ev.data['args']
        ok_args = len(a) == 2 and (util.origin_call_key(util.root_sym(a[0])) or '').endswith('.relativity') \
                  and util.attr_chain(a[1])[1][-1:] == ('_accepted',)
        c.expect(ok_args, 'C12-c', 'PathAndRelativityRestriction/tests-resolved-relativity',
                 'the restriction does not compare the resolved path\'s relativity with its accepted variants', par.loc())
        if labs[0] == 'sat':
            c.expect(p.kind == 'return' and isinstance(p.val, K) and p.val.v is None, 'C12-c',
                     'PathAndRelativityRestriction/satisfied', 'a satisfied restriction gives %s' % util.describe(p.val),
                     par.loc())
        else:
            c.expect(p.kind == 'return' and not (isinstance(p.val, K) and p.val.v is None), 'C12-c',
                     'PathAndRelativityRestriction/unsatisfied', 'an unsatisfied restriction gives no error', par.loc())
    c.require(seen == {'sat', 'unsat'}, 'C12-c: PathAndRelativityRestriction outcomes %s' % seen)
    # every symbol-dependent value an instruction is built from is reported (else its restriction is never checked)
    check_references_complete(c, 'C12-c', floor=25)


# ---------------------------------------------------------------- d
def clause_d(c: Check):
    """root / suffix joins: an absolute suffix discards the root (pathlib), so a sandbox-relative destination with an
    absolute suffix escapes the sandbox.  Known finding D6 (upstream doc/BUGS.rst)."""
    ix = c.ix
    m = ix.module(PDD)
    n = 0
    guard_sites = _suffix_is_relative_guards(ix)
    for cls in m.all_classes:
        for meth in cls.methods.values():
            if not meth.name.startswith('value_'):
                continue
            for node in ast.walk(meth.node):
                if isinstance(node, ast.BinOp) and isinstance(node.op, ast.Div):
                    right = unparse(node.right)
                    derived = 'suffix' in right
                    if not derived:
                        continue
                    n += 1
                    key = 'join/%s.%s' % (cls.key, meth.name)
                    if guard_sites:
                        c.ok('C12-d', key, 'suffix checked to be relative at %s' % guard_sites[0])
                    else:
                        c.bad('C12-d', key,
                              'the root directory is joined with a suffix that is never checked to be relative: an '
                              'absolute suffix (e.g. `file -rel-act /abs/x`) discards the root and escapes it',
                              '%s:%d' % (m.relpath, node.lineno))
    c.floor('C12-d', 'root/suffix join sites', n, 5)


def _suffix_is_relative_guards(ix: Index) -> List[str]:
    """places between parsing and use that reject an absolute path suffix"""
    out = []
    for modname in ('exactly_lib.impls.types.path.parse_path', PDD,
                    'exactly_lib.type_val_deps.types.path.impl.path_base',
                    'exactly_lib.type_val_deps.types.path.path_part_ddvs',
                    'exactly_lib.type_val_deps.types.path.path_sdv_impls.constant',
                    'exactly_lib.impls.types.path.path_check'):
        m = ix.get_module(modname)
        if m is None:
            continue
        for n in ast.walk(m.tree):
            if isinstance(n, ast.Attribute) and n.attr == 'is_absolute' and 'suffix' in unparse(n.value):
                f = m.enclosing_func(n)
                # must lead to an error (raise / error return) in the same function
                if f is not None and any(isinstance(x, ast.Raise) for x in ast.walk(f.node)):
                    out.append('%s:%d' % (m.relpath, n.lineno))
    return out


# ---------------------------------------------------------------- e
def clause_e(c: Check):
    """`-rel SYMBOL` / leading path-symbol references: the path is the referenced path followed by the given suffix.
    PLUMB + EVAL on _StackedPathDdv: `stacked(base, suffix)` stacks exactly (base, suffix); every value_* of the
    stacked path is <the same value_* of the base> / <the suffix that was stacked> (not the combined suffix, which
    already contains the base's own suffix); the combined suffix is used for reporting only"""
    ix, fo = c.ix, c.fo
    PD = 'exactly_lib.type_val_deps.types.path.path_ddvs'
    st_f = ix.func(PD + ':stacked')
    sp = ix.cls(PD + ':_StackedPathDdv')
    names = [p.arg for p in st_f.positional_params()]
    n = 0
    for p in util.func_paths(ix, fo, st_f, Hooks()):
        if p.kind != 'return':
            continue
        n += 1
        con = util.constructed(ix, p.val)
        ok = con is not None and con[0] == sp.key and len(con[1]) + len(con[2]) == 2
        if ok:
            init = ix.class_member(sp, '__init__')
            pn = [p_.arg for p_ in init.positional_params()[1:]]
            given = dict(zip(pn, con[1]))
            given.update(con[2])
            vals = [given.get(x) for x in pn]
            ok = all(isinstance(v, Sym) and util.root_sym(v).origin and util.root_sym(v).origin[:2] == ('param', nm)
                     and not util.attr_chain(v)[1] for v, nm in zip(vals, names))
        c.expect(bool(ok), 'C12-e', 'stacked/stacks-the-given-path-and-suffix',
                 'stacked(base, suffix) does not build the stacked path of exactly (base, suffix): %s' % util.describe(p.val),
                 st_f.loc())
    c.floor('C12-e', 'returning paths of stacked()', n, 1)

    class H(Hooks):
        def inline(self, fd, st):
            return fd.cls is sp and fd.name.startswith('_stacked')

    for meth in ('value_when_no_dir_dependencies', 'value_pre_sds', 'value_post_sds'):
        f = ix.class_member(sp, meth)
        it = Interp(ix, fo, H())
        st = State()
        obj = it.new_obj(sp)
        base, own, combined = Sym('base-path'), Sym('stacked-suffix'), Sym('combined-suffix')
        st.heap[(obj.oid, 'base_path')] = base
        st.heap[(obj.oid, '_stacked_path_suffix')] = own
        st.heap[(obj.oid, '_combined_path_suffix')] = combined
        ok = False
        for p in it.run_function(f, {}, st, recv=obj):
            o = p.val.origin if p.kind == 'return' and isinstance(p.val, Sym) else None
            if not (o and o[0] == 'op' and isinstance(p.val.node, ast.BinOp) and isinstance(p.val.node.op, ast.Div)):
                continue
            left, right = o[2]
            lo = left.origin if isinstance(left, Sym) else None
            left_ok = bool(lo) and lo[0] == 'call' and isinstance(lo[4].func, ast.Attribute) and lo[4].func.attr == meth \
                      and util.attr_chain(p.trace[lo[5]].data.get('callee_val'))[0] is base if lo and lo[5] is not None else False
            mentions_own = _mentions_value(right, own, 0, p.trace)
            mentions_combined = _mentions_value(right, combined, 0, p.trace)
            ok = bool(left_ok) and mentions_own and not mentions_combined
        c.expect(ok, 'C12-e', '_StackedPathDdv.%s' % meth,
                 'the %s of a stacked path is not <%s of the base path> / <the stacked suffix>' % (meth, meth), f.loc())


def _mentions_value(v, target, depth=0, trace=None) -> bool:
    """target occurs in the construction of v (arguments and receivers of the calls that produced it)"""
    if v is target:
        return True
    if depth > 8 or not isinstance(v, Sym) or not v.origin:
        return False
    o = v.origin
    if o[0] == 'call':
        if any(_mentions_value(x, target, depth + 1, trace) for x in list(o[2]) + list(o[3].values())):
            return True
        if trace is not None and o[5] is not None:
            ev = trace[o[5]]
            recv = ev.data.get('recv')
            if recv is None:
                recv = ev.data.get('callee_val')
            if recv is not None and _mentions_value(recv, target, depth + 1, trace):
                return True
        return False
    for x in o[1:]:
        for y in (x if isinstance(x, (list, tuple)) else [x]):
            if isinstance(y, Sym) and _mentions_value(y, target, depth + 1, trace):
                return True
    return False


# ---------------------------------------------------------------- f
VALUE_PREFIX = 'value_'


def clause_f(c: Check):
    """EFF: a directory-dependent value is a function of the directories it is given and - for -rel-cd - of the
    current directory at the time of the call. The values of the generic layer (`exactly_lib.type_val_deps`: the
    dependency-variant base classes, path / string / list values) are held by constant symbol-dependent values and
    by the builtin symbols, i.e. for the whole process: across the `cd`s of a case and across the cases of a suite.
    So no `value_*` method of these classes may store in the object anything it computes from its arguments (mutation
    summaries over resolved calls and local aliases, rules/purity.py). Lazy initialisation by a method without
    parameters (the stored value is a function of the object alone) is accepted."""
    from .purity import Purity
    ix = c.ix
    pu = Purity(ix)
    n = 0
    for name in ix.all_module_names():
        if not name.startswith('exactly_lib.type_val_deps.'):
            continue
        for k in ix.module(name).all_classes:
            for mname, f in k.methods.items():
                if not mname.startswith(VALUE_PREFIX) or not f.self_name or util.is_abstract_body(f):
                    continue
                n += 1
                changed = pu.self_mutations(f, ignore_paramless=True)
                c.expect(not changed, 'C12-f', 'value-function-keeps-no-state/%s.%s' % (k.key, mname),
                         '%s.%s stores %s in the object from what it computes for its arguments: the value is held by '
                         'constant values and builtin symbols for the whole process, so a path relative to the '
                         'current directory (or to the directories of another case) is given as it was at the first '
                         'use' % (k.name, mname, ', '.join('self.' + a for a in changed)), f.loc())
    c.floor('C12-f', 'value functions of directory-dependent values analysed', n, 45)
