"""C02 Outcome table: status x assert outcome -> verdict, exit code, identifier, stream per output mode."""
import ast
from typing import Optional, List, Dict

from ..core import FuncDef, ClassDef, External, AnalysisError, unparse, walk_own
from ..fold import Record, EnumMember, Ref, is_unknown
from ..absint import Interp, Hooks, State, K, Sym, Obj, Exc, NONE, wrap
from ..report import Check
from .. import util
from .common import ForkHooks, labels_of, check_record

EV = 'exactly_lib.processing.exit_values'
FR = 'exactly_lib.execution.full_execution.result'
RR = 'exactly_lib.processing.standalone.result_reporting'
TCP = 'exactly_lib.processing.test_case_processing'
PRR = 'exactly_lib.common.process_result_reporters'

# the documented table (reference manual, "Test case outcome"; property statement)
DOCUMENTED_EXIT = {
    'PASS': 0, 'SKIPPED': 0, 'FAIL': 32, 'XFAIL': 33, 'XPASS': 33,
    'SYNTAX_ERROR': 65, 'VALIDATION_ERROR': 65, 'HARD_ERROR': 128, 'INTERNAL_ERROR': 129,
}
DOCUMENTED_ACCESS_ERROR_EXIT = 65
DOCUMENTED_INVALID_USAGE = 64


def check(c: Check):
    c.explanation = (
        'Decision tables extracted by path-sensitive constant propagation over the functions\' own CFG '
        '(translate_status, from_result, option selection), folded exit-value table compared with the documented '
        'constants, and a typestate analysis of the three result reporters (which stream gets the identifier, what '
        'else is written to stdout, which value is returned) for every verdict and every kind of processing result. '
        'Decides the table/plumbing clauses a-g of DESIGN.md C02; does not decide colour, stderr text or argparse.')
    clause_a(c)
    clause_b(c)
    clause_c(c)
    clause_de(c)
    clause_f(c)
    clause_g(c)
    clause_h(c)
    clause_i(c)
    clause_j(c)
    from .common import check_exit_code_tests
    check_exit_code_tests(c, 'C02-k', ['exactly_lib.processing'], 1,
                          'the output of a preprocessor that was killed is parsed as the test case')
    from .common import sweep_records
    sweep_records(c, 'C02-rec', ['exactly_lib.processing', 'exactly_lib.common.exit_value', 'exactly_lib.common.process_result_reporter', 'exactly_lib.test_case.result'], floor=12)


# ---------------------------------------------------------------- a
def clause_a(c: Check):
    ix, fo = c.ix, c.fo
    f = ix.func(FR + ':translate_status')
    tcs = fo.enum_members(ix.cls('exactly_lib.test_case.test_case_status:TestCaseStatus'))
    efs = fo.enum_members(ix.cls('exactly_lib.execution.result:ExecutionFailureStatus'))
    fers = ix.cls(FR + ':FullExeResultStatus')
    pn = [p.arg for p in f.positional_params()]
    n = 0
    table = {}
    for sname in ('PASS', 'FAIL'):
        c.require(sname in tcs, 'C02-a: TestCaseStatus.%s missing' % sname)
        for oname, outcome in [('None', None)] + sorted(efs.items()):
            paths = util.func_paths(ix, fo, f, Hooks(), args={pn[0]: K(tcs[sname]), pn[1]: K(outcome)})
            outs = set()
            for p in paths:
                if p.kind == 'return' and isinstance(p.val, K) and isinstance(p.val.v, EnumMember) \
                        and p.val.v.cls == fers:
                    outs.add(p.val.v.name)
                else:
                    outs.add('?' + (util.describe(p.val) if p.kind == 'return' else 'raises'))
            if oname == 'None':
                want = 'PASS' if sname == 'PASS' else 'XPASS'
            elif oname == 'FAIL':
                want = 'FAIL' if sname == 'PASS' else 'XFAIL'
            else:
                want = oname
            n += 1
            table['%s x %s' % (sname, oname)] = sorted(outs)
            c.expect(outs == {want}, 'C02-a', 'translate_status/%s/%s' % (sname, oname),
                     'status %s with partial outcome %s gives %s (documented: %s)' % (sname, oname, sorted(outs), want),
                     f.loc())
    c.floor('C02-a', 'rows of translate_status', n, 12)
    c.sample({'translate_status': table})
    # oracle 1: the help text's own table (independently written in the repository)
    try:
        _help_table(c, table)
    except AnalysisError as ex:
        c.note('help-table cross-check skipped: %s' % ex)
    # SKIP: new_skipped builds SKIPPED
    sk = ix.func(FR + ':new_skipped')
    ok = False
    for call, d in util.calls_in(ix, sk):
        if isinstance(d, ClassDef) and d.name == 'FullExeResult' and call.args:
            v = fo.fold(sk.module, sk, call.args[0])
            ok = isinstance(v, EnumMember) and v.name == 'SKIPPED'
    c.expect(ok, 'C02-a', 'new_skipped', 'new_skipped() does not build a SKIPPED result', sk.loc())
    # new_from_result_of_partial_execution feeds (status, partial.status) to translate_status
    nf = ix.func(FR + ':new_from_result_of_partial_execution')
    ok = False
    for call, d in util.calls_in(ix, nf):
        if d == f and len(call.args) == 2:
            a0, a1 = call.args
            ok = isinstance(a0, ast.Name) and a0.id == nf.positional_params()[0].arg \
                 and isinstance(a1, ast.Attribute) and a1.attr == 'status' and isinstance(a1.value, ast.Name) \
                 and a1.value.id == nf.positional_params()[1].arg
    c.expect(ok, 'C02-a', 'new_from_result_of_partial_execution/plumbing',
             'translate_status is not applied to (configured status, partial result status)', nf.loc())


def _help_table(c: Check, table):
    ix, fo = c.ix, c.fo
    mod = ix.module('exactly_lib.help.program_modes.test_case.contents.specification.outcome')
    fn = mod.defs.get('_outcomes_per_status_and_assert')
    if not isinstance(fn, FuncDef):
        raise AnalysisError('no _outcomes_per_status_and_assert')
    rows = []
    for n in ast.walk(fn.node):
        if isinstance(n, ast.Call) and isinstance(n.func, ast.Name) and n.func.id == '_row' and len(n.args) >= 3:
            vals = [fo.fold(mod, fn, a) for a in n.args[:3]]
            rows.append(vals)
    if len(rows) < 4:
        raise AnalysisError('help table rows not recognised')
    for status_name, assert_outcome, verdict in rows:
        sname = getattr(status_name, 'name', status_name)
        s = str(sname).upper() if isinstance(sname, str) else None
        v = verdict.name if isinstance(verdict, EnumMember) else None
        a = None
        if s == 'SKIP':
            c.expect(v == 'SKIPPED', 'C02-a', 'help-table/SKIP', 'help documents %s for status SKIP' % v,
                     '%s:%d' % (mod.relpath, fn.node.lineno))
            continue
        if isinstance(assert_outcome, Record):
            ident = fo.record_attr(assert_outcome, 'exit_identifier')
            a = ident if isinstance(ident, str) else None
        if s is None or v is None or a is None:
            raise AnalysisError('help table row not folded: %r' % ((status_name, assert_outcome, verdict),))
        if s == 'SKIP':
            continue
        key = '%s x %s' % (s, 'None' if a == 'PASS' else a)
        got = table.get(key)
        c.expect(got == [v], 'C02-a', 'help-table/%s' % key,
                 'the built-in help documents %s for status %s / assert outcome %s but the implementation gives %s'
                 % (v, s, a, got), '%s:%d' % (mod.relpath, fn.node.lineno))


# ---------------------------------------------------------------- b
def clause_b(c: Check):
    ix, fo = c.ix, c.fo
    tab = fo.fold_path(EV + ':_FOR_FULL_RESULT')
    c.require(isinstance(tab, dict), 'C02-b: _FOR_FULL_RESULT not folded: %r' % (tab,))
    fers = fo.enum_members(ix.cls(FR + ':FullExeResultStatus'))
    var = ix.var(EV + ':_FOR_FULL_RESULT')
    c.expect(not tab.get('__duplicate_keys__'), 'C02-b', '_FOR_FULL_RESULT/duplicate-keys',
             'duplicate keys %s' % tab.get('__duplicate_keys__'), var.loc())
    for name, m in sorted(fers.items()):
        key = '_FOR_FULL_RESULT/' + name
        ev = tab.get(m)
        if not isinstance(ev, Record):
            c.bad('C02-b', key, 'verdict %s has no exit value' % name, var.loc())
            continue
        code = fo.record_attr(ev, 'exit_code')
        ident = fo.record_attr(ev, 'exit_identifier')
        want = DOCUMENTED_EXIT.get(name)
        c.expect(code == want and ident == name, 'C02-b', key,
                 'verdict %s is reported as exit code %r / identifier %r (documented: %r / %s)' % (
                     name, code, ident, want, name), var.loc(), detail='%s %s' % (code, ident))
    c.expect(set(DOCUMENTED_EXIT) == set(fers), 'C02-b', 'FullExeResultStatus/members',
             'verdicts %s differ from the documented set' % sorted(set(fers) ^ set(DOCUMENTED_EXIT)), var.loc())
    ff = ix.func(EV + ':from_full_result')
    from ..fold import single_return_expr
    r = single_return_expr(ff)
    ok = isinstance(r, ast.Subscript) and isinstance(r.value, ast.Name) and r.value.id == '_FOR_FULL_RESULT' \
         and isinstance(r.slice, ast.Name) and r.slice.id == ff.positional_params()[0].arg
    c.expect(ok, 'C02-b', 'from_full_result', 'from_full_result is not the lookup _FOR_FULL_RESULT[status]', ff.loc())
    # access errors
    aet = fo.enum_members(ix.cls(TCP + ':AccessErrorType'))
    fa = ix.func(EV + ':from_access_error')
    for name, m in sorted(aet.items()):
        paths = util.func_paths(ix, fo, fa, Hooks(), args={fa.positional_params()[0].arg: K(m)})
        ok = False
        got = None
        for p in paths:
            if p.kind == 'return' and isinstance(p.val, K) and isinstance(p.val.v, Record):
                code = fo.record_attr(p.val.v, 'exit_code')
                ident = fo.record_attr(p.val.v, 'exit_identifier')
                got = (code, ident)
                ok = code == DOCUMENTED_ACCESS_ERROR_EXIT and ident == name
        c.expect(ok and len(paths) == 1, 'C02-b', 'from_access_error/' + name,
                 'access error %s is reported as %r (documented: %d / %s)' % (name, got, DOCUMENTED_ACCESS_ERROR_EXIT,
                                                                             name), fa.loc())
    # invalid usage
    v = fo.fold_path('exactly_lib.cli.definitions.exit_codes:EXIT_INVALID_USAGE')
    c.expect(v == DOCUMENTED_INVALID_USAGE, 'C02-b', 'EXIT_INVALID_USAGE', 'invalid usage exit code is %r' % (v,),
             'src/exactly_lib/cli/definitions/exit_codes.py')
    iur = ix.cls('exactly_lib.cli.main_program:_InvalidUsageReporter')
    rep = ix.class_member(iur, 'report')
    rets = [fo.fold(rep.module, rep, v) for v in util.returned_values(rep)]
    writes_out = any(isinstance(n, ast.Attribute) and n.attr == 'out' for n in ast.walk(rep.node))
    c.expect(rets == [DOCUMENTED_INVALID_USAGE] and not writes_out, 'C02-b', '_InvalidUsageReporter.report',
             'invalid usage returns %s / writes to stdout: %s' % (rets, writes_out), rep.loc())


# ---------------------------------------------------------------- c
def clause_c(c: Check):
    ix, fo = c.ix, c.fo
    f = ix.func(EV + ':from_result')
    res_cls = ix.cls(TCP + ':Result')
    status = fo.enum_members(ix.cls(TCP + ':Status'))
    aet = fo.enum_members(ix.cls(TCP + ':AccessErrorType'))
    fers = fo.enum_members(ix.cls(FR + ':FullExeResultStatus'))
    tab = fo.fold_path(EV + ':_FOR_FULL_RESULT')

    full_cls = ix.cls(FR + ':FullExeResult')

    class H(Hooks):
        def inline(self, fd, st):
            return fd.module.name in (EV, FR, 'exactly_lib.execution.result')

    def run(mk_rec):
        it = Interp(ix, fo, H())
        st = State()
        rec, st = mk_rec(it, st)
        st.trace = []
        return it.run_function(f, args={f.positional_params()[0].arg: K(rec)}, st=st)

    def ev_of(p):
        if p.kind == 'return' and isinstance(p.val, K) and isinstance(p.val.v, Record):
            return fo.record_attr(p.val.v, 'exit_code'), fo.record_attr(p.val.v, 'exit_identifier')
        return None

    c.require(set(status) == {'EXECUTED', 'ACCESS_ERROR', 'INTERNAL_ERROR'},
              'C02-c: processing.Status members changed: %s' % sorted(status))
    # EXECUTED x verdict
    for name, m in sorted(fers.items()):
        def mk(it, st, m=m):
            objs = it.instantiate(full_cls, st, {'status': K(m), 'sds': Sym('sds'),
                                                 'action_to_check_outcome': Sym('atc'), 'failure_info': Sym('fi')})
            c.require(len(objs) == 1, 'C02-c: FullExeResult constructor forks')
            full, st2 = objs[0]
            return Record(res_cls, {'status': status['EXECUTED'], 'error_info': None, 'error_type': None,
                                    'execution_result': full}), st2

        got = {ev_of(p) for p in run(mk)}
        want = (DOCUMENTED_EXIT[name], name)
        c.expect(got == {want}, 'C02-c', 'from_result/EXECUTED/' + name,
                 'an executed case with verdict %s is reported as %s (documented %s)' % (name, got, want), f.loc())
    for name, m in sorted(aet.items()):
        def mk(it, st, m=m):
            return Record(res_cls, {'status': status['ACCESS_ERROR'], 'error_info': Sym('ei'), 'error_type': m,
                                    'execution_result': None}), st

        got = {ev_of(p) for p in run(mk)}
        want = (DOCUMENTED_ACCESS_ERROR_EXIT, name)
        c.expect(got == {want}, 'C02-c', 'from_result/ACCESS_ERROR/' + name,
                 'access error %s is reported as %s (documented %s)' % (name, got, want), f.loc())

    def mk(it, st):
        return Record(res_cls, {'status': status['INTERNAL_ERROR'], 'error_info': Sym('ei'), 'error_type': None,
                                'execution_result': None}), st

    got = {ev_of(p) for p in run(mk)}
    c.expect(got == {(129, 'INTERNAL_ERROR')}, 'C02-c', 'from_result/INTERNAL_ERROR',
             'an internal processing error is reported as %s' % got, f.loc())


# ---------------------------------------------------------------- d e
def clause_de(c: Check):
    ix, fo = c.ix, c.fo
    reporters = fo.fold_path(RR + ':RESULT_REPORTERS')
    c.require(isinstance(reporters, dict), 'C02-e: RESULT_REPORTERS not folded')
    ro = fo.enum_members(ix.cls('exactly_lib.processing.standalone.settings:ReportingOption'))
    var = ix.var(RR + ':RESULT_REPORTERS')
    c.expect(set(reporters) - {'__duplicate_keys__'} == set(ro.values()), 'C02-e', 'RESULT_REPORTERS/total',
             'reporting options without reporter: %s' % sorted(m.name for m in set(ro.values()) - set(reporters)),
             var.loc())
    fers = fo.enum_members(ix.cls(FR + ':FullExeResultStatus'))
    aet = fo.enum_members(ix.cls(TCP + ':AccessErrorType'))
    status = fo.enum_members(ix.cls(TCP + ':Status'))
    res_cls = ix.cls(TCP + ':Result')
    full_cls = ix.cls(FR + ':FullExeResult')
    prr_cls = ix.cls(PRR + ':ProcessResultReporterWithInitialExitValueOutput')
    base_cls = ix.cls(RR + ':TestCaseResultReporter')

    MODE = {'STATUS_CODE': 'normal', 'SANDBOX_DIRECTORY_STRUCTURE_ROOT': 'keep', 'ACT_PHASE_OUTPUT': 'act'}
    c.require(set(ro) == set(MODE), 'C02-e: ReportingOption members changed: %s' % sorted(ro))

    class H(Hooks):
        def inline(self, fd, st):
            if fd.module.name == EV:
                return True
            f = fd
            while f is not None:
                if f.cls is not None:
                    return f.cls.module.name in (RR, PRR, FR, 'exactly_lib.execution.result',
                                                 'exactly_lib.common.exit_value')
                f = f.parent
            return fd.module.name in (RR, PRR) and fd.cls is None

        def inline_class(self, cd, st):
            return cd == prr_cls

    # which (verdict, action outcome known) combinations can occur: the action's outcome exists when the act phase
    # completed; PASS/FAIL/XPASS/XFAIL imply it, SKIPPED / SYNTAX_ERROR / VALIDATION_ERROR precede it, hard and
    # internal errors may come before or after it
    OUTCOME = {'PASS': [True], 'FAIL': [True], 'XPASS': [True], 'XFAIL': [True], 'SKIPPED': [False],
               'SYNTAX_ERROR': [False], 'VALIDATION_ERROR': [False, True], 'HARD_ERROR': [False, True],
               'INTERNAL_ERROR': [False, True]}
    n_cases = 0
    for oname, opt in sorted(ro.items()):
        ref = reporters.get(opt)
        if not (isinstance(ref, Ref) and isinstance(ref.d, ClassDef)):
            raise AnalysisError('C02-e: reporter class of %s not folded' % oname)
        rcls = ref.d
        mode = MODE[oname]
        c.require(ix.is_subclass(rcls, base_cls), 'C02-e: %s is not a TestCaseResultReporter' % rcls.key)
        dep = ix.class_member(rcls, 'depends_on_result_in_sandbox')
        rets = [fo.fold(dep.module, dep, v) for v in util.returned_values(dep)]
        c.expect(rets == [mode == 'keep'], 'C02-e', '%s/depends_on_result_in_sandbox' % oname,
                 'mode %s: sandbox is %skept (%s)' % (mode, '' if rets == [True] else 'not ', rets), dep.loc())
        atc = ix.class_member(rcls, 'execute_atc_and_skip_assertions')
        rets = util.returned_values(atc)
        if mode == 'act':
            ok = len(rets) == 1 and isinstance(rets[0], ast.Attribute) and rets[0].attr == 'std_files'
            c.expect(ok, 'C02-e', '%s/execute_atc_and_skip_assertions' % oname,
                     '--act does not hand the process\' own std files to the action to check', atc.loc())
        else:
            ok = len(rets) == 1 and isinstance(rets[0], ast.Constant) and rets[0].value is None
            c.expect(ok, 'C02-e', '%s/execute_atc_and_skip_assertions' % oname,
                     'mode %s skips the assertions' % mode, atc.loc())
        report = ix.class_member(rcls, 'report')
        cases = []
        for vname, vm in sorted(fers.items()):
            for has_sds in (True, False):
                for has_outcome in OUTCOME[vname]:
                    if has_outcome and not has_sds:
                        continue  # the action runs inside the sandbox
                    cases.append(('EXECUTED/%s/%s/%s' % (vname, 'sds' if has_sds else 'no-sds',
                                                         'act-done' if has_outcome else 'act-not-done'),
                                  'EXECUTED', vm, has_sds, has_outcome, None))
        for an, am in sorted(aet.items()):
            cases.append(('ACCESS_ERROR/' + an, 'ACCESS_ERROR', None, False, False, am))
        cases.append(('INTERNAL_ERROR', 'INTERNAL_ERROR', None, False, False, None))
        for label, st_name, verdict, has_sds, has_outcome, access in cases:
            n_cases += 1
            it = Interp(ix, fo, H())
            state = State()
            full_val = NONE
            if st_name == 'EXECUTED':
                sds = Sym('sds', nullness=False, origin=('sds',)) if has_sds else NONE
                outcome = Sym('atc_outcome', nullness=False, origin=('atc',)) if has_outcome else NONE
                objs = it.instantiate(full_cls, state, {'status': K(verdict), 'sds': sds,
                                                        'action_to_check_outcome': outcome,
                                                        'failure_info': Sym('failure_info')})
                c.require(len(objs) == 1, 'C02-e: FullExeResult constructor forks')
                full_val, state = objs[0]
            rec = Record(res_cls, {'status': status[st_name], 'error_info': Sym('error_info'),
                                   'error_type': access, 'execution_result': full_val})
            robjs = it.instantiate(rcls, state, {})
            c.require(len(robjs) == 1, 'C02-e: reporter constructor forks')
            robj, state = robjs[0]
            state.trace = []
            paths = it.run_function(report, args={report.positional_params()[1].arg: K(rec)}, st=state, recv=robj)
            key = '%s/report/%s' % (oname, label)
            exp = _expected(mode, st_name, verdict, has_sds, access)
            for p in paths:
                obs = _observe(c, p)
                c.expect(obs == exp, 'C02-e', key,
                         'mode %s, result %s: observed %s, documented %s' % (mode, label, obs, exp), report.loc(),
                         detail=str(obs))
                if label.startswith('EXECUTED/PASS/sds') or label.startswith('ACCESS_ERROR/SYNTAX'):
                    c.sample({'mode': mode, 'result': label, 'observed': obs})
    c.floor('C02-e', 'reporter x result cases', n_cases, 60)

    # d: the two generic reporters print the identifier and return the code of one and the same exit value
    for cls_name in ('ProcessResultReporterWithInitialExitValueOutput',
                     'ProcessResultReporterOfExitCodeAndMajorBlocksBase'):
        rc = ix.cls(PRR + ':' + cls_name)
        rep = ix.class_member(rc, 'report')

        class H2(Hooks):
            def inline(self, fd, st):
                return fd.module.name == PRR and fd.cls is None

        it = Interp(ix, fo, H2())
        paths = it.run_function(rep)
        for p in paths:
            idents = []
            for e in p.calls():
                node = e.node
                if isinstance(node.func, ast.Attribute) and node.func.attr == 'write_colored_line':
                    idents.append(e.data['args'][0])
            ret = p.val if p.kind == 'return' else None
            ok = len(idents) == 1
            b1, ch1 = util.attr_chain(idents[0]) if idents else (None, ())
            b2, ch2 = util.attr_chain(ret)
            ok = ok and ch1[-1:] == ('exit_identifier',) and ch2[-1:] == ('exit_code',) \
                 and util.root_sym(b1) is util.root_sym(b2) and ch1[:-1] == ch2[:-1]
            c.expect(bool(ok), 'C02-d', cls_name + '.report',
                     'identifier printed (%s) and exit code returned (%s) are not attributes of the same exit value'
                     % ([util.describe(i) for i in idents], util.describe(ret)), rep.loc())
    # ExitValue equality must not be used to classify verdicts: verdicts share exit codes (PASS/SKIPPED, XFAIL/XPASS,
    # SYNTAX_ERROR/VALIDATION_ERROR) - informational, decided by the table above


def _observe(c: Check, p) -> dict:
    """what a reporter path does: (stream, identifier) writes, other stdout writes, returned value"""
    ident_writes = []
    stdout_writes = []
    none_deref = [e for e in p.trace if e.kind == 'none-deref']
    for e in p.calls():
        node = e.node
        if isinstance(node.func, ast.Attribute):
            if node.func.attr == 'write_colored_line':
                stream = _stream_of_printer(e.data.get('recv'))
                arg = e.data['args'][0] if e.data['args'] else None
                ident_writes.append((stream, arg.v if isinstance(arg, K) else util.describe(arg)))
            elif node.func.attr in ('write_line', 'write', 'write_lines'):
                stream = _stream_of_printer(e.data.get('recv'))
                if stream in ('STDOUT', 'out'):
                    arg = e.data['args'][0] if e.data['args'] else None
                    stdout_writes.append(_describe_out_arg(arg))
    if p.kind != 'return':
        ret = 'raises ' + util.describe(p.val)
    elif none_deref:
        ret = 'uses an attribute of None (%s)' % none_deref[0].data
    elif isinstance(p.val, K):
        ret = p.val.v
    else:
        base, chain = util.attr_chain(p.val)
        if chain and chain[-1] == 'exit_code' and isinstance(base, Sym) and util.root_sym(base).tag == 'atc_outcome':
            ret = 'exit code of the action to check'
        else:
            ret = util.describe(p.val)
    return {'identifier': sorted(set(ident_writes), key=str), 'stdout': stdout_writes, 'returns': ret}


def _stream_of_printer(recv) -> Optional[str]:
    if isinstance(recv, Sym):
        r = util.root_sym(recv)
        o = r.origin
        if o and o[0] == 'call' and o[2]:
            a = o[2][0]
            if isinstance(a, K) and isinstance(a.v, EnumMember):
                return a.v.name
        base, chain = util.attr_chain(recv)
        if chain:
            return chain[-1]
    return None


def _describe_out_arg(arg) -> str:
    if isinstance(arg, Sym) and arg.origin and arg.origin[0] == 'call' and arg.origin[1] == 'builtins.str':
        inner = arg.origin[2][0] if arg.origin[2] else None
        base, chain = util.attr_chain(inner)
        if isinstance(base, Sym) and util.root_sym(base).tag == 'sds' and chain == ('root_dir',):
            return 'sandbox root dir'
        return 'str(%s)' % util.describe(inner)
    return util.describe(arg)


def _expected(mode, st_name, verdict, has_sds, access) -> dict:
    if st_name == 'EXECUTED':
        ident, code = verdict.name, DOCUMENTED_EXIT[verdict.name]
    elif st_name == 'ACCESS_ERROR':
        ident, code = access.name, DOCUMENTED_ACCESS_ERROR_EXIT
    else:
        ident, code = 'INTERNAL_ERROR', DOCUMENTED_EXIT['INTERNAL_ERROR']
    ident_stream = 'STDOUT' if mode == 'normal' else 'STDERR'
    exp = {'identifier': [(ident_stream, ident)], 'stdout': [], 'returns': code}
    if mode == 'keep' and st_name == 'EXECUTED' and has_sds:
        exp['stdout'] = ['sandbox root dir']
    if mode == 'act' and st_name == 'EXECUTED' and verdict.name in ('PASS', 'FAIL', 'XPASS', 'XFAIL'):
        exp = {'identifier': [], 'stdout': [], 'returns': 'exit code of the action to check'}
    return exp


# ---------------------------------------------------------------- f
def clause_f(c: Check):
    ix, fo = c.ix, c.fo
    AP = 'exactly_lib.cli.program_modes.test_case.argument_parsing'
    f = ix.func(AP + ':_settings_from_namespace')
    settings_cls = ix.cls('exactly_lib.processing.standalone.settings:TestCaseExecutionSettings')
    ns = [p.arg for p in f.positional_params()][-1]
    paths = util.func_paths(ix, fo, f, Hooks())
    seen = set()
    for p in paths:
        g = {}
        for test, truth in p.guards:
            t = unparse(test)
            if t == ns + '.act':
                g['act'] = truth
            elif t == ns + '.keep':
                g['keep'] = truth
        if p.kind != 'return':
            continue
        con = util.constructed(ix, p.val)
        out = con[3].get('output') if con and con[0] == settings_cls.key else None
        got = out.v.name if isinstance(out, K) and isinstance(out.v, EnumMember) else util.describe(out)
        if g.get('act'):
            want = 'ACT_PHASE_OUTPUT'
            label = 'act'
        elif g.get('keep'):
            want = 'SANDBOX_DIRECTORY_STRUCTURE_ROOT'
            label = 'keep'
        elif g.get('act') is False and g.get('keep') is False:
            want = 'STATUS_CODE'
            label = 'neither'
        else:
            raise AnalysisError('C02-f: option tests of _settings_from_namespace not recognised: %s' % g)
        seen.add(label)
        c.expect(got == want, 'C02-f', '_settings_from_namespace/' + label,
                 'command line option %s selects output mode %s (expected %s)' % (label, got, want), f.loc())
    c.require(seen == {'act', 'keep', 'neither'}, 'C02-f: option combinations missing: %s' % seen)
    # the option strings are bound to those namespace attributes
    np_ = ix.func(AP + ':_new_argument_parser')
    found = {}
    for n in ast.walk(np_.node):
        if isinstance(n, ast.Call) and isinstance(n.func, ast.Attribute) and n.func.attr == 'add_argument':
            strs = [fo.fold(np_.module, np_, a) for a in n.args]
            dest = util.keyword_arg(n, 'dest')
            destv = fo.fold(np_.module, np_, dest) if dest is not None else None
            for s in strs:
                if isinstance(s, str) and s.startswith('--'):
                    found[s] = destv if isinstance(destv, str) else s[2:].replace('-', '_')
    for opt, attr in (('--act', 'act'), ('--keep', 'keep')):
        c.expect(found.get(opt) == attr, 'C02-f', 'argparse/' + opt,
                 'option %s is stored as %r (the settings read namespace.%s)' % (opt, found.get(opt), attr), np_.loc())


# ---------------------------------------------------------------- g
def clause_g(c: Check):
    ix = c.ix
    recs = [
        ('exactly_lib.common.exit_value:ExitValue', None),
        (TCP + ':Result', {'access_error_type': 'error_type'}),
        (TCP + ':ErrorInfo', {'maybe_section_name': 'section_name'}),
        ('exactly_lib.execution.impl.result:Failure', None),
        ('exactly_lib.execution.impl.single_instruction_executor:PartialInstructionControlledFailureInfo', None),
        ('exactly_lib.execution.impl.single_instruction_executor:SingleInstructionExecutionFailure',
         {'source_location_path': 'source_location', 'failure_details': 'details'}),
    ]
    n = 0
    for path, renames in recs:
        n += check_record(c, 'C02-g', ix.cls(path), renames)
    c.floor('C02-g', 'judged record properties', n, 15)
    if c.tier == 'thorough':
        total = 0
        classes = 0
        for m in ix.all_modules():
            for cls in m.all_classes:
                k = check_record(c, 'C02-g', cls, None, required=False)
                if k:
                    classes += 1
                    total += k
        c.floor('C02-g', 'tuple records in the repository (thorough)', classes, 80)
        c.note('thorough: %d tuple records, %d properties judged' % (classes, total))


# ---------------------------------------------------------------- h
def clause_h(c: Check):
    """EXC: a preprocessor that cannot be started or run is PRE_PROCESS_ERROR (65), not INTERNAL_ERROR: the process
    start of the preprocessor is enclosed by handlers that cover OSError (not found, not executable, a directory ...)
    and ValueError and convert to ProcessError"""
    from .C18 import handlers_around, _covers
    ix = c.ix
    f = ix.func('exactly_lib.processing.preprocessor:PreprocessorViaExternalProgram.apply')
    m = f.module
    pe = ix.cls('exactly_lib.processing.test_case_processing:ProcessError')
    n = 0
    for node in ast.walk(f.node):
        if isinstance(node, ast.Call):
            d = ix.callee(m, f, node)
            if isinstance(d, External) and d.dotted.startswith('subprocess.'):
                n += 1
                handled, converts = handlers_around(ix, m, f, node)
                ok = _covers(ix, handled, {'builtins.OSError', 'builtins.ValueError'}) and converts
                c.expect(ok, 'C02-h', 'preprocessor/start-errors-converted',
                         'the start of the preprocessor is covered by handlers for %s only: a preprocessor that exists but '
                         'cannot be executed (PermissionError, a directory) escapes and is reported as INTERNAL_ERROR '
                         'instead of PRE_PROCESS_ERROR' % sorted(h.split('.')[-1] for h in handled),
                         '%s:%d' % (m.relpath, node.lineno))
    c.floor('C02-h', 'process starts of the preprocessor', n, 1)
    # the converting handlers raise ProcessError
    raises = [x for x in ast.walk(f.node) if isinstance(x, ast.Raise) and isinstance(x.exc, ast.Call)]
    ok = bool(raises) and all(ix.callee(m, f, x.exc) == pe for x in raises)
    c.expect(ok, 'C02-h', 'preprocessor/raises-process-error', 'the preprocessor raises something else than ProcessError', f.loc())


# ---------------------------------------------------------------- i
def clause_i(c: Check):
    """DT: a command line option value that is to be split into words (--actor, --preprocessor) and holds no word -
    empty or white space only - is invalid usage (exit 64): shlex_split evaluated on the blank values raises
    ArgumentParsingError on every path; and the lexer's ValueError (unbalanced quote) is converted to it"""
    ix, fo = c.ix, c.fo
    f = ix.func('exactly_lib.cli.program_modes.common.shlex_arg_parse:shlex_split')
    ape = ix.cls('exactly_lib.util.argument_parsing_utils:ArgumentParsingError')
    names = [p.arg for p in f.positional_params()]
    c.require(len(names) == 2, 'C02-i: shlex_split does not take (component, value)')

    class H(Hooks):
        def may_raise(self, callee_def, node, st):
            if isinstance(callee_def, External) and callee_def.dotted == 'shlex.split':
                return [External('builtins.ValueError')]
            return []

    for label, text in (('empty', ''), ('space', ' '), ('tab-and-space', '\t ')):
        outs = set()
        for p in util.func_paths(ix, fo, f, H(), args={names[0]: K('--opt'), names[1]: K(text)}):
            if p.kind == 'raise' and isinstance(p.val, Exc) and p.val.cls == ape:
                outs.add('invalid-usage')
            elif p.kind == 'raise':
                outs.add('raises ' + util.describe(p.val))
            else:
                outs.add('accepted: ' + util.describe(p.val))
        c.expect(outs == {'invalid-usage'}, 'C02-i', 'shlex_split/blank/' + label,
                 'an option value that is %s is %s (expected invalid usage, exit 64)' % (
                     {'empty': 'empty', 'space': 'a space', 'tab-and-space': 'white space only'}[label], sorted(outs)), f.loc())
    outs = set()
    for p in util.func_paths(ix, fo, f, H(), args={names[0]: K('--opt'), names[1]: K('prog "unbalanced')}):
        if p.kind == 'raise':
            outs.add('invalid-usage' if isinstance(p.val, Exc) and p.val.cls == ape else 'raises ' + util.describe(p.val))
    c.expect(outs == {'invalid-usage'}, 'C02-i', 'shlex_split/lexer-error-converted',
             'an unbalanced quote in an option value ends as %s' % sorted(outs), f.loc())


# ---------------------------------------------------------------- j
def clause_j(c: Check):
    """ERR a parse error of the test case never gets lost on its way to the outcome: the handler object that the
    parser step hands a ParseError to (`ex.accept(<handler>)`) raises on every path of every visit method - a visit
    method that can return normally makes the parser step return nothing, and the processing goes on without a test
    case (or the error is reported as another kind)."""
    ix, fo = c.ix, c.fo
    P = 'exactly_lib.processing.processors'
    ap = ix.func(P + ':_Parser.apply')
    handlers = []
    for n in ast.walk(ap.node):
        if isinstance(n, ast.Call) and isinstance(n.func, ast.Attribute) and n.func.attr == 'accept' and n.args:
            a = n.args[0]
            d = ix.callee(ap.module, ap, a) if isinstance(a, ast.Call) else None
            if isinstance(d, ClassDef):
                handlers.append(d)
    c.require(len(handlers) == 1, 'C02-j: the visitor of parse errors in _Parser.apply is not found (%s)' % [h.name for h in handlers])
    h = handlers[0]
    pe = ix.cls('exactly_lib.processing.test_case_processing:ProcessError')
    ae = ix.cls('exactly_lib.processing.test_case_processing:AccessorError')
    n_m = 0
    for name, m in sorted(h.methods.items()):
        if not name.startswith('visit'):
            continue
        n_m += 1
        outs = set()
        for p in util.func_paths(ix, fo, m, Hooks()):
            if p.kind == 'raise' and isinstance(p.val, Exc) and (p.val.cls is pe or p.val.cls is ae or pe in ix.mro(p.val.cls)):
                outs.add('raises the access error')
            else:
                outs.add('returns' if p.kind == 'return' else 'raises %s' % util.describe(p.val))
        c.expect(outs == {'raises the access error'}, 'C02-j', 'parse-error-handler/%s.%s' % (h.name, name),
                 '%s.%s %s: the parse error it handles is lost (the parser step returns nothing)' % (
                     h.name, name, ' / '.join(sorted(outs))), m.loc())
    c.floor('C02-j', 'visit methods of the parse error handler', n_m, 2)
