"""C08 Symbols: defined before use, defined once, type-checked, substituted (DESIGN.md section 5, clauses a-f)."""
import ast
from typing import List, Optional

from ..core import Index, FuncDef, ClassDef, External, AnalysisError, unparse, walk_own, dotted_name, parent
from ..fold import Folder, Record, EnumMember, Ref, is_unknown, single_return_expr
from ..absint import Interp, Hooks, State, K, Sym, Obj, Exc, NONE, ListVal
from ..report import Check
from .. import util
from .common import ForkHooks, labels_of, check_first_error_wins
from .C01 import get_model, step_kinds

SV = 'exactly_lib.execution.impl.symbol_validation'
PSV = 'exactly_lib.execution.partial_execution.impl.symbol_validation'
EXECUTOR_MOD = 'exactly_lib.execution.partial_execution.impl.executor'
RR = 'exactly_lib.type_val_deps.sym_ref.w_str_rend_restrictions.reference_restrictions'
ST = 'exactly_lib.util.symbol_table'


def check(c: Check):
    c.explanation = (
        'Table discipline of symbol validation and definition: one validating executor over one growing table '
        'walked in execution order (executor trace model); path analysis of the definition / reference validators '
        '(duplicate -> error before add; all of a definition\'s own references validated before it is added; '
        'undefined -> error; restriction result propagated); per-iteration typestate of the transitive restriction '
        'check (no reference skipped, recursion on every referenced symbol); who-may-mutate the symbol table; '
        'the type table is total over the value types and pairs each type with the parser of that type; the `def` '
        'main step stores its own definition; list rendering in strings joins every element. Decides clauses a-f of '
        'DESIGN.md C08; not the rendered values in general.')
    clause_a(c)
    clause_b(c)
    clause_c(c)
    clause_d(c)
    clause_e(c)
    clause_f(c)
    from .common import check_references_complete
    check_references_complete(c, 'C08-g', floor=25)
    from .common import sweep_records
    sweep_records(c, 'C08-rec', ['exactly_lib.symbol', 'exactly_lib.util.symbol_table', 'exactly_lib.type_val_deps.sym_ref'], floor=5)
    clause_h(c)


# ---------------------------------------------------------------- a
def clause_a(c: Check):
    ix = c.ix
    kind_of = step_kinds(c)
    m = get_model(c)
    full = max((t for t in m.traces if t.terminal == 'PASS' and t.first_raised() is None), key=lambda t: len(t.steps))
    sym_steps = [s for s in full.steps if s.kind == 'step' and kind_of[s.step] == 'SYMBOLS']
    order = [s.phase for s in sym_steps]
    c.expect(order == ['SETUP', 'ACT', 'BEFORE_ASSERT', 'ASSERT', 'CLEANUP'], 'C08-a', 'validation-order',
             'symbols are validated in the order %s (execution order: setup, act, before-assert, assert, cleanup)' % order,
             PSV)
    executors = set()
    for s in sym_steps:
        if s.via == 'instructions':
            executors.add(id(util.root_sym(s.args[1])) if isinstance(s.args[1], Sym) else id(s.args[1]))
    c.expect(len(executors) == 1, 'C08-a', 'one-validating-executor',
             'the instruction phases are validated by %d different executor objects (one table must grow through all '
             'phases)' % len(executors), PSV)
    # the act phase is validated with the same executor (same table)
    va = ix.func(PSV + ':SymbolsValidator._validate_atc')
    uses = [n for n in ast.walk(va.node) if isinstance(n, ast.Attribute) and n.attr == '_validation_executor']
    c.expect(len(uses) >= 1, 'C08-a', 'act-uses-same-executor', 'the act phase is not validated with the shared '
                                                                 'validation executor', va.loc())
    # the executor is built over the validator's own copy of the initial table; output is that table
    init = ix.func(PSV + ':SymbolsValidator.__init__')
    ok = False
    for n in walk_own(init.node):
        if isinstance(n, ast.Assign) and isinstance(n.targets[0], ast.Attribute) \
                and n.targets[0].attr == '_validation_executor' and isinstance(n.value, ast.Call):
            ok = [unparse(a) for a in n.value.args] == ['self._symbols']
    c.expect(ok, 'C08-a', 'executor-over-own-table', 'the validation executor is not built over self._symbols', init.loc())
    out = ix.func(PSV + ':SymbolsValidator.output')
    r = single_return_expr(out)
    c.expect(isinstance(r, ast.Attribute) and r.attr == '_symbols', 'C08-a', 'output-is-validated-table',
             'the validator\'s output is not the table it validated into', out.loc())
    # builtins included: the initial table is the predefined symbols
    pv = ix.func(EXECUTOR_MOD + ':_PartialExecutor.execute')
    ok = False
    for call, d in util.calls_in(ix, pv):
        if isinstance(d, FuncDef) and d.name == 'parse_atc_and_validate_symbols' and len(call.args) >= 2:
            ok = unparse(call.args[1]) == 'self.exe_conf.predefined_symbols'
    c.expect(ok, 'C08-a', 'initial-table-is-predefined-symbols',
             'validation does not start from the predefined (builtin) symbols', pv.loc())


# ---------------------------------------------------------------- b
def clause_b(c: Check):
    ix, fo = c.ix, c.fo
    vd = ix.func(SV + ':_validate_symbol_definition')
    vu = ix.func(SV + ':validate_symbol_usage')
    vus = ix.func(SV + ':validate_symbol_usages')
    pcfe = ix.cls('exactly_lib.execution.impl.single_instruction_executor:PartialControlledFailureEnum')

    def is_contains(d, n, cv):
        return isinstance(n.func, ast.Attribute) and n.func.attr == 'contains'

    hooks = ForkHooks(ix, loop_bound=2)
    hooks.fork_on(is_contains, [('defined', lambda: K(True)), ('undefined', lambda: K(False))])
    hooks.fork_on(lambda d, n, cv: d in (vu, vus), [('ref-ok', lambda: NONE),
                                                    ('ref-err', lambda: Sym('ref_failure', nullness=False,
                                                                            origin=('ref-failure',)))])
    n_add_paths = 0
    for p in util.func_paths(ix, fo, vd, hooks):
        labs = labels_of(p)
        key = '_validate_symbol_definition/' + '-'.join(labs)
        adds = [i for i, e in enumerate(p.trace) if e.kind == 'call' and isinstance(e.node.func, ast.Attribute)
                and e.node.func.attr in ('add', 'put')]
        vals = [i for i, e in enumerate(p.trace) if e.kind == 'call' and e.data.get('label') in ('ref-ok', 'ref-err')]
        if labs[0] == 'defined':
            st = _status(c, p)
            c.expect(not adds and st == 'VALIDATION_ERROR', 'C08-b', key,
                     'a name that is already defined is %s (status %s)' % ('added again' if adds else 'not added', st),
                     vd.loc())
            continue
        if 'ref-err' in labs:
            ok = not adds and labs[-1] == 'ref-err' and p.kind == 'return' \
                 and getattr(util.root_sym(p.val), 'label', None) == 'ref-err'
            c.expect(ok, 'C08-b', key,
                     'a definition with an invalid reference is %s and returns %s' % (
                         'added to the table' if adds else 'not added', util.describe(p.val)), vd.loc())
            continue
        n_add_paths += 1
        ok = len(adds) == 1 and all(v < adds[0] for v in vals) and p.kind == 'return' and isinstance(p.val, K) \
             and p.val.v is None
        late = [v for v in vals if adds and v > adds[0]]
        c.expect(ok, 'C08-b', key,
                 'a valid definition: added %d times; %s; returns %s' % (
                     len(adds), 'its own references are validated AFTER it is added (it can see itself)' if late
                     else 'references validated before', util.describe(p.val)), vd.loc())
        if adds:
            a = p.trace[adds[0]].data['args']
            base, chain = util.attr_chain(a[0]) if a else (None, ())
            c.expect(chain == ('symbol_table_entry',), 'C08-b', key + '/adds-own-entry',
                     'the table entry added is %s' % (util.describe(a[0]) if a else None), vd.loc())
    c.floor('C08-b', 'accepting paths of _validate_symbol_definition', n_add_paths, 2)
    # the references validated are the definition's references (all of them, in order)
    refs_ok = False
    for n in ast.walk(vd.node):
        if isinstance(n, ast.For) and unparse(n.iter) == '%s.references' % vd.positional_params()[1].arg:
            refs_ok = True
        if isinstance(n, ast.Call) and ix.callee(vd.module, vd, n) == vus \
                and unparse(n.args[0]) == '%s.references' % vd.positional_params()[1].arg:
            refs_ok = True
    c.expect(refs_ok, 'C08-b', '_validate_symbol_definition/validates-own-references',
             'the definition\'s own references are not validated', vd.loc())

    # reference
    vr = ix.func(SV + ':_validate_symbol_reference')
    vref = ix.func(SV + ':_validate_reference')
    hooks = ForkHooks(ix)
    hooks.fork_on(is_contains, [('defined', lambda: K(True)), ('undefined', lambda: K(False))])
    hooks.fork_on(lambda d, n, cv: d == vref, [('restriction-ok', lambda: NONE),
                                               ('restriction-err', lambda: Sym('err_msg', nullness=False,
                                                                               origin=('err',)))])
    seen = set()
    for p in util.func_paths(ix, fo, vr, hooks):
        labs = labels_of(p)
        tag = '-'.join(labs)
        seen.add(tag)
        key = '_validate_symbol_reference/' + tag
        st = _status(c, p)
        if labs[0] == 'undefined':
            c.expect(st == 'VALIDATION_ERROR' and len(labs) == 1, 'C08-b', key,
                     'a reference to an undefined symbol gives %s' % (st or util.describe(p.val)), vr.loc())
        elif labs[-1] == 'restriction-err':
            con = util.constructed(ix, p.val) if p.kind == 'return' else None
            carried = con is not None and any(getattr(util.root_sym(a), 'label', None) == 'restriction-err'
                                              for a in con[3].values())
            c.expect(st == 'VALIDATION_ERROR' and carried, 'C08-b', key,
                     'a reference that violates its restriction gives %s' % (st or util.describe(p.val)), vr.loc())
        else:
            c.expect(p.kind == 'return' and isinstance(p.val, K) and p.val.v is None, 'C08-b', key,
                     'a valid reference gives %s' % util.describe(p.val), vr.loc())
    c.require(seen == {'undefined', 'defined-restriction-ok', 'defined-restriction-err'},
              'C08-b: paths of _validate_symbol_reference: %s' % sorted(seen))
    # _validate_reference: restriction of the reference, applied to the looked-up container
    hooks = ForkHooks(ix)
    hooks.fork_on(lambda d, n, cv: isinstance(n.func, ast.Attribute) and n.func.attr == 'is_satisfied_by',
                  [('satisfied', lambda: NONE), ('failure', lambda: Sym('failure', nullness=False, origin=('f',)))])
    for p in util.func_paths(ix, fo, vref, hooks):
        labs = labels_of(p)
        c.require(len(labs) == 1, 'C08-b: _validate_reference applies the restriction %d times' % len(labs))
        ev = [e for e in p.trace if e.kind == 'call' and 'label' in e.data][0]
        recv = unparse(ev.node.func.value)
        c.expect(recv == '%s.restrictions' % vref.positional_params()[0].arg, 'C08-b',
                 '_validate_reference/uses-the-references-own-restriction',
                 'the restriction applied is %s' % recv, vref.loc())
        args = ev.data['args']
        ok = len(args) == 3 and util.origin_call_key(util.root_sym(args[2])) is not None \
             and (util.origin_call_key(util.root_sym(args[2])) or '').endswith('SymbolTable.lookup')
        c.expect(ok, 'C08-b', '_validate_reference/checks-the-looked-up-definition',
                 'the restriction is not applied to the definition found in the table', vref.loc())
        if labs[0] == 'satisfied':
            c.expect(p.kind == 'return' and isinstance(p.val, K) and p.val.v is None, 'C08-b',
                     '_validate_reference/satisfied', 'a satisfied restriction gives %s' % util.describe(p.val),
                     vref.loc())
        else:
            con = util.constructed(ix, p.val) if p.kind == 'return' else None
            ok = con is not None and any(getattr(util.root_sym(a), 'label', None) == 'failure' for a in con[1])
            c.expect(ok, 'C08-b', '_validate_reference/failure',
                     'a restriction failure is not returned as an error message (%s)' % util.describe(p.val), vref.loc())
    check_first_error_wins(c, 'C08-b', vus, lambda d, n, cv: d == vu)


def _status(c: Check, p) -> Optional[str]:
    if p.kind != 'return':
        return None
    con = util.constructed(c.ix, p.val)
    if con and con[0].endswith(':PartialInstructionControlledFailureInfo'):
        s = con[3].get('status')
        if isinstance(s, K) and isinstance(s.v, EnumMember):
            return s.v.name
    return None


# ---------------------------------------------------------------- c
def clause_c(c: Check):
    ix, fo = c.ix, c.fo
    cls = ix.cls(RR + ':ReferenceRestrictionsOnDirectAndIndirect')
    isb = ix.class_member(cls, 'is_satisfied_by')
    ci = ix.class_member(cls, 'check_indirect')
    ci_ = ix.class_member(cls, '_check_indirect')

    # --- is_satisfied_by
    for has_indirect in (True, False):
        hooks = ForkHooks(ix)
        hooks.fork_on(lambda d, n, cv: isinstance(n.func, ast.Attribute) and n.func.attr == 'is_satisfied_by'
                                       and unparse(n.func.value) == 'self._direct',
                      [('direct-ok', lambda: NONE), ('direct-err', lambda: Sym('direct_err', nullness=False,
                                                                               origin=('d',)))])
        hooks.fork_on(lambda d, n, cv: d in (ci, ci_), [('indirect', lambda: Sym('indirect_result', origin=('i',)))])
        it = Interp(ix, fo, hooks)
        st = State()
        obj = it.new_obj(cls)
        st.heap[(obj.oid, '_indirect')] = Sym('indirect_restriction', nullness=False) if has_indirect else NONE
        for p in it.run_function(isb, st=st, recv=obj):
            labs = labels_of(p)
            key = 'is_satisfied_by/%s/%s' % ('with-indirect' if has_indirect else 'direct-only', '-'.join(labs))
            if labs[0] == 'direct-err':
                k = util.constructed_class(ix, p.val) if p.kind == 'return' else None
                c.expect(k is not None and k.endswith(':FailureOfDirectReference') and len(labs) == 1, 'C08-c', key,
                         'a failing direct restriction gives %s' % util.describe(p.val), isb.loc())
            elif has_indirect:
                ok = labs == ['direct-ok', 'indirect'] and p.kind == 'return' \
                     and getattr(util.root_sym(p.val), 'label', None) == 'indirect'
                c.expect(ok, 'C08-c', key,
                         'with an indirect restriction the references of the symbol are not checked (%s, returns %s)' % (
                             labs, util.describe(p.val)), isb.loc())
                if ok:
                    ev = [e for e in p.trace if e.kind == 'call' and e.data.get('label') == 'indirect'][0]
                    a = ev.data['args']
                    base, chain = util.attr_chain(a[-1]) if a else (None, ())
                    c.expect(chain[-2:] == ('sdv', 'references'), 'C08-c', key + '/references-of-the-symbol',
                             'the indirect check is applied to %s' % (util.describe(a[-1]) if a else None), isb.loc())
            else:
                c.expect(labs == ['direct-ok'] and p.kind == 'return' and isinstance(p.val, K) and p.val.v is None,
                         'C08-c', key, 'without indirect restriction: %s, returns %s' % (labs, util.describe(p.val)),
                         isb.loc())
    # --- _check_indirect: per reference: restriction applied, then recursion into that symbol's references
    hooks = ForkHooks(ix, loop_bound=2)
    hooks.fork_on(lambda d, n, cv: isinstance(n.func, ast.Attribute) and n.func.attr == 'is_satisfied_by',
                  [('ok', lambda: NONE), ('err', lambda: Sym('err', nullness=False, origin=('e',)))])
    hooks.fork_on(lambda d, n, cv: d == ci_, [('sub-ok', lambda: NONE),
                                              ('sub-err', lambda: Sym('sub_err', nullness=False, origin=('s',)))])
    n_iter = 0
    for p in util.func_paths(ix, fo, ci_, hooks):
        # split the trace into iterations
        iters = []
        cur = None
        for e in p.trace:
            if e.kind == 'loop-iter':
                cur = []
                iters.append(cur)
            elif e.kind == 'call' and 'label' in e.data and cur is not None:
                cur.append(e)
        for i, evs in enumerate(iters):
            n_iter += 1
            labs = [e.data['label'] for e in evs]
            last = i == len(iters) - 1
            key = '_check_indirect/iteration/' + '-'.join(labs or ['skipped'])
            if not labs or labs[0] not in ('ok', 'err'):
                c.bad('C08-c', key, 'a referenced symbol is skipped: the indirect restriction is not applied to it '
                                    '(events of the iteration: %s)' % labs, ci_.loc())
                continue
            if labs[0] == 'err':
                con = util.constructed(ix, p.val) if p.kind == 'return' else None
                ok = last and len(labs) == 1 and con is not None and con[0].endswith(':FailureOfIndirectReference') \
                     and any(getattr(util.root_sym(a), 'label', None) == 'err' for a in con[3].values())
                c.expect(bool(ok), 'C08-c', key, 'a violating indirect reference is not reported at once (%s)' %
                         util.describe(p.val), ci_.loc())
                continue
            if len(labs) < 2 or labs[1] not in ('sub-ok', 'sub-err'):
                c.bad('C08-c', key, 'the symbols referenced by a referenced symbol are not checked (no recursion)',
                      ci_.loc())
                continue
            rec = evs[1]
            a = rec.data['args']
            base, chain = util.attr_chain(a[-1]) if a else (None, ())
            c.expect(chain[-2:] == ('sdv', 'references'), 'C08-c', key + '/recursion-on-its-references',
                     'the recursion is applied to %s' % (util.describe(a[-1]) if a else None), ci_.loc())
            if labs[1] == 'sub-err':
                ok = last and p.kind == 'return' and getattr(util.root_sym(p.val), 'label', None) == 'sub-err'
                c.expect(bool(ok), 'C08-c', key, 'a failure found deeper is not returned', ci_.loc())
            else:
                c.ok('C08-c', key)
                if last and not p.truncated:
                    # a reference that is fine does not end the loop: the remaining references are checked too
                    idx_last_iter = max(i_ for i_, e in enumerate(p.trace) if e.kind == 'loop-iter')
                    exited = any(e.kind == 'loop-exit' for e in p.trace[idx_last_iter:])
                    c.expect(exited, 'C08-c', '_check_indirect/continues-after-a-satisfying-reference',
                             'after a referenced symbol that satisfies the restriction the check returns instead of going '
                             'on to the remaining references (a wrong-typed symbol behind the first reference is accepted)',
                             ci_.loc())
        if not iters or all([e.data['label'] for e in evs][-1:] in (['sub-ok'],) for evs in iters if evs):
            if p.kind == 'return' and not (iters and any(not evs for evs in iters)):
                c.expect(isinstance(p.val, K) and p.val.v is None, 'C08-c', '_check_indirect/all-ok-returns-none',
                         'all references satisfy the restriction but the result is %s' % util.describe(p.val), ci_.loc())
    c.floor('C08-c', 'iterations of _check_indirect analysed', n_iter, 4)
    # the restriction applied is the indirect one, to the definition looked up by the reference's name
    ok = False
    for n in ast.walk(ci_.node):
        if isinstance(n, ast.Call) and isinstance(n.func, ast.Attribute) and n.func.attr == 'is_satisfied_by':
            ok = unparse(n.func.value) == 'self._indirect' and len(n.args) == 3 and unparse(n.args[1]).endswith('.name')
    c.expect(ok, 'C08-c', '_check_indirect/applies-indirect-restriction', 'the indirect restriction is not applied to '
                                                                          'each reference', ci_.loc())
    # OrReferenceRestrictions: the part of the symbol's own type decides
    orr = ix.cls(RR + ':OrReferenceRestrictions')
    f = ix.class_member(orr, 'is_satisfied_by')
    hooks = ForkHooks(ix, loop_bound=2)
    hooks.fork_on(lambda d, n, cv: isinstance(n.func, ast.Attribute) and n.func.attr == 'is_satisfied_by',
                  [('part-result', lambda: Sym('part_result', origin=('p',)))])
    hooks.fork_on(lambda d, n, cv: isinstance(n.func, ast.Attribute) and n.func.attr == '_no_satisfied_restriction',
                  [('no-part', lambda: Sym('no_part', nullness=False, origin=('n',)))])
    outs = set()
    for p in util.func_paths(ix, fo, f, hooks):
        labs = labels_of(p)
        lab = labs[-1] if labs else None
        ok = p.kind == 'return' and lab in ('part-result', 'no-part') and len(labs) == 1 \
             and getattr(util.root_sym(p.val), 'label', None) == lab
        outs.add(lab)
        c.expect(ok, 'C08-c', 'OrReferenceRestrictions.is_satisfied_by/' + str(lab),
                 'result is %s after %s' % (util.describe(p.val), labs), f.loc())
    c.require(outs == {'part-result', 'no-part'}, 'C08-c: OrReferenceRestrictions outcomes %s' % outs)


# ---------------------------------------------------------------- d
ALLOWED_MUTATORS = {
    SV + ':_validate_symbol_definition': 'validation-time: a valid definition is added to the validation table',
    'exactly_lib.impls.instructions.multi_phase.define_symbol.parser:TheInstructionEmbryo.custom_main':
        'execution-time: the def instruction stores its definition',
    'exactly_lib.cli.program_modes.symbol.impl.reports.value_presentation:PresentationBlockConstructor.__init__':
        'the symbol command builds its own presentation table',
}


def clause_d(c: Check):
    ix = c.ix
    st = ix.cls(ST + ':SymbolTable')
    n = 0
    for name in ('add', 'put', 'add_all', 'add_table'):
        meth = ix.class_member(st, name)
        c.require(isinstance(meth, FuncDef), 'C08-d: SymbolTable.%s missing' % name)
        for m in ix.modules_mentioning('.' + name + '('):
            for node in ast.walk(m.tree):
                if isinstance(node, ast.Call) and isinstance(node.func, ast.Attribute) and node.func.attr == name:
                    f = m.enclosing_func(node)
                    d = ix.callee(m, f, node)
                    if d != meth:
                        continue
                    n += 1
                    where = f.key if f else m.name
                    if m.name == ST:
                        continue
                    c.expect(where in ALLOWED_MUTATORS, 'C08-d', 'SymbolTable.%s@%s' % (name, where),
                             'a symbol table is modified in %s' % where, '%s:%d' % (m.relpath, node.lineno))
    c.floor('C08-d', 'resolved mutator calls', n, 4)
    # direct writes of the dict from outside
    for m in ix.modules_mentioning('_key_2_value'):
        c.expect(m.name == ST, 'C08-d', '_key_2_value@' + m.name, 'the table\'s dict is accessed outside its class',
                 m.relpath)
    # the def instruction stores (name, container) of its own definition into the environment's table
    cm = ix.func('exactly_lib.impls.instructions.multi_phase.define_symbol.parser:TheInstructionEmbryo.custom_main')
    ok = False
    for call, d in util.calls_in(ix, cm):
        if isinstance(call.func, ast.Attribute) and call.func.attr == 'put' and len(call.args) == 2:
            ok = unparse(call.args[0]) == 'self.symbol.name' and unparse(call.args[1]) == 'self.symbol.symbol_container' \
                 and unparse(call.func.value) == cm.positional_params()[1].arg
    c.expect(ok, 'C08-d', 'def/stores-own-definition', 'the def instruction does not store (name, container) of its own '
                                                       'definition', cm.loc())
    mn = ix.func('exactly_lib.impls.instructions.multi_phase.define_symbol.parser:TheInstructionEmbryo.main')
    ok = any(d == cm and unparse(call.args[0]) == 'environment.symbols' for call, d in util.calls_in(ix, mn))
    c.expect(ok, 'C08-d', 'def/main-uses-environment-symbols', 'def does not write to the environment\'s symbol table',
             mn.loc())
    su = ix.func('exactly_lib.impls.instructions.multi_phase.define_symbol.parser:TheInstructionEmbryo.symbol_usages')
    r = single_return_expr(su)
    c.expect(r is not None and unparse(r) == '[self.symbol]', 'C08-d', 'def/reports-its-definition',
             'def does not report its definition as a symbol usage (it would not be validated)', su.loc())
    # execution-time table: every main step gets the one post-sds table; validation steps the validated table
    pe = ix.cls(EXECUTOR_MOD + ':_PartialExecutor')
    g = ix.class_member(pe, '_post_sds_main_environments')
    ok = any(isinstance(n, ast.Attribute) and n.attr.endswith('post_sds_symbol_table') for n in ast.walk(g.node))
    c.expect(ok, 'C08-d', 'main-steps/execution-time-table', 'main steps do not get the execution-time symbol table',
             g.loc())
    g2 = ix.class_member(pe, '_post_setup_validation_environments')
    ok = any(unparse(n) == 'self._instruction_environment_pre_sds.symbols' for n in ast.walk(g2.node)
             if isinstance(n, ast.Attribute))
    c.expect(ok, 'C08-d', 'validation-steps/validated-table', 'post-setup validation does not get the validated table',
             g2.loc())


# ---------------------------------------------------------------- e
SNAKE = {'STRING': 'string_', 'LIST': 'list_', 'PATH': 'path'}


def clause_e(c: Check):
    ix, fo = c.ix, c.fo
    TS = 'exactly_lib.impls.instructions.multi_phase.define_symbol.type_setup'
    lst = fo.fold_path(TS + ':TYPE_SETUPS_LIST')
    c.require(isinstance(lst, list) and all(isinstance(x, Record) for x in lst), 'C08-e: TYPE_SETUPS_LIST not folded')
    vt = fo.enum_members(ix.cls('exactly_lib.symbol.value_type:ValueType'))
    seen = {}
    for rec in lst:
        info = fo.record_attr(rec, 'type_info')
        vtype = fo.record_attr(rec, 'value_type')
        ident = fo.attr_of_value(info, 'identifier') if not is_unknown(info) else info
        parser = fo.record_attr(rec, 'parser')
        if not isinstance(vtype, EnumMember) or not isinstance(ident, str) or not isinstance(parser, Record):
            raise AnalysisError('C08-e: a type setup does not fold (%r, %r, %r)' % (vtype, ident, parser))
        key = 'type-setup/' + vtype.name
        c.expect(vtype.name not in seen, 'C08-e', key + '/unique', 'value type %s has two setups' % vtype.name, TS)
        seen[vtype.name] = ident
        # parser class is the one of this type
        camel = ''.join(w.capitalize() for w in vtype.name.split('_'))
        pcls = parser.cls
        c.expect(pcls.name == camel + 'Parser', 'C08-e', key + '/parser-class',
                 'type %s is parsed by %s' % (vtype.name, pcls.name), pcls.loc())
        # ... and delegates to the parse module of the type
        snake = SNAKE.get(vtype.name, vtype.name.lower())
        mods = set()
        for n in ast.walk(pcls.node):
            if True:
                if isinstance(n, (ast.Name, ast.Attribute)):
                    d = ix.resolve_static(pcls.module, pcls.module.enclosing_func(n), n)
                    if d is not None and hasattr(d, 'module') and getattr(d, 'module', None) is not None:
                        mods.add(d.module.name)
                    elif d is not None and d.kind == 'module':
                        mods.add(d.name)
        ok = any(('.types.%s.' % snake) in mname + '.' for mname in mods)
        c.expect(ok, 'C08-e', key + '/delegates-to-own-parser',
                 'the parser of type %s does not use the parse module of that type (uses %s)' % (
                     vtype.name, sorted(x for x in mods if '.impls.types.' in x)), pcls.loc())
    c.expect(set(seen) == set(vt), 'C08-e', 'type-setups/total',
             'value types without `def` setup: %s' % sorted(set(vt) - set(seen)), TS)
    c.expect(len(set(seen.values())) == len(seen), 'C08-e', 'type-setups/distinct-identifiers',
             'two types share an identifier: %s' % seen, TS)
    # the container gets the value type of the setup that parsed the value
    ps = ix.func('exactly_lib.impls.instructions.multi_phase.define_symbol.parser:_parse')
    ok = False
    n_ret = 0
    for p in util.func_paths(ix, fo, ps, Hooks()):
        if p.kind != 'return':
            continue
        n_ret += 1
        v = p.val
        good = isinstance(v, ListVal) and len(v.items) == 3
        if good:
            vt_base, vt_names = util.attr_chain(v.items[1])
            vo = v.items[2].origin if isinstance(v.items[2], Sym) else None
            good = vt_names == ('value_type',) and bool(vo) and vo[0] == 'call' and vo[5] is not None
            if good:
                cv = p.trace[vo[5]].data.get('callee_val')
                pb, pn = util.attr_chain(cv) if cv is not None else (None, ())
                good = pn == ('parser', 'parse') and util.root_sym(pb) is util.root_sym(vt_base)
                so = util.root_sym(vt_base).origin if isinstance(util.root_sym(vt_base), Sym) else None
                good = good and bool(so) and so[0] == 'index'
        ok = good if n_ret == 1 else (ok and good)
    ok = ok and n_ret >= 1
    c.expect(ok, 'C08-e', '_parse/type-and-value-from-one-setup', 'value type and value parser are not taken from the '
                                                                  'same type setup', ps.loc())


# ---------------------------------------------------------------- f
def clause_f(c: Check):
    ix = c.ix
    f = ix.func('exactly_lib.type_val_deps.types.string_.strings_ddvs:ListFragmentDdv._to_string')
    r = single_return_expr(f)
    ok = isinstance(r, ast.Call) and isinstance(r.func, ast.Attribute) and r.func.attr == 'join' \
         and isinstance(r.func.value, ast.Constant) and r.func.value.value == ' ' and len(r.args) == 1 \
         and isinstance(r.args[0], ast.Name) and r.args[0].id == f.positional_params()[1].arg
    c.expect(ok, 'C08-f', 'ListFragmentDdv._to_string',
             'a list inside a string is rendered as %s, not every element joined by single spaces' % (
                 unparse(r) if r is not None else 'a multi-statement body'), f.loc())
    # symbol references resolve the symbol of their own name
    for path in ('exactly_lib.type_val_deps.types.string_.string_sdv_impls:SymbolStringFragmentSdv.resolve',):
        g = ix.try_lookup(path)
        if isinstance(g, FuncDef):
            ok = any(isinstance(n, ast.Call) and isinstance(n.func, ast.Attribute) and n.func.attr == 'lookup'
                     and unparse(n.args[0]) in ('self._symbol_reference.name', 'self.symbol_name') for n in ast.walk(g.node))
            c.expect(ok, 'C08-f', 'SymbolStringFragmentSdv.resolve', 'a symbol fragment does not look up its own symbol '
                                                                     'name', g.loc())


# ---------------------------------------------------------------- h
def clause_h(c: Check):
    """CFGOBL "a string is made of strings, transitively": every construction of
    ReferenceRestrictionsOnDirectAndIndirect whose direct restriction demands a string (`is_string()`) also restricts
    the indirectly referenced symbols to strings - else a list or path hidden behind a string symbol is accepted
    where a string is demanded (path components, integer expressions ...)"""
    ix = c.ix
    RR = 'exactly_lib.type_val_deps.sym_ref.w_str_rend_restrictions.reference_restrictions'
    cls = ix.cls(RR + ':ReferenceRestrictionsOnDirectAndIndirect')
    is_string = ix.func('exactly_lib.type_val_deps.sym_ref.w_str_rend_restrictions.value_restrictions:is_string')
    sites = util.call_sites_of(ix, cls)
    n = 0
    for s in sites:
        b = util.ctor_call_args(ix, cls, s.node) or {}
        m = ix.module(s.where.split(':')[0]) if ':' in s.where else ix.module(s.where)
        f = ix.try_lookup(s.where) if ':' in s.where else None
        f = f if isinstance(f, FuncDef) else None
        d = b.get('direct')
        if not (isinstance(d, ast.Call) and ix.callee(m, f, d) == is_string):
            continue
        n += 1
        ind = b.get('indirect')
        ok = isinstance(ind, ast.Call) and ix.callee(m, f, ind) == is_string
        c.expect(ok, 'C08-h', 'string-restriction-is-transitive@' + s.where,
                 'a reference restriction demands a string directly but restricts the indirectly referenced symbols with '
                 '%s: a list / path behind a string symbol is accepted' % (unparse(ind) if ind is not None else 'nothing'),
                 s.loc)
    c.floor('C08-h', 'string restrictions constructed', n, 1)
    # the restriction of path components is one of these
    v = ix.try_lookup('exactly_lib.type_val_deps.types.path.references:PATH_COMPONENT_STRING_REFERENCES_RESTRICTION')
    ok = False
    if v is not None and getattr(v, 'value', None) is not None and isinstance(v.value, ast.Call):
        d = ix.callee(v.module, None, v.value)
        ok = getattr(d, 'key', None) in (RR + ':is_string__all_indirect_refs_are_strings', cls.key)
    c.expect(ok, 'C08-h', 'path-component-restriction', 'the restriction on symbols used as path components is not a '
                                                        'transitive string restriction', getattr(v, 'module', None) and v.module.relpath)
