"""Rule templates shared between properties (REC, TAB helpers, FOLD helpers)."""
import ast
from typing import List, Optional, Dict, Tuple

from ..core import Index, FuncDef, ClassDef, Def, External, AnalysisError, unparse, dotted_name, walk_own, parent
from ..fold import Folder, Record, EnumMember, Ref, is_unknown, tuple_record_elements, single_return_expr
from ..absint import Interp, Hooks, State, Event, K, Sym, NONE
from ..report import Check


# ------------------------------------------------------------------ REC

def record_layout(ix: Index, c: ClassDef) -> Optional[Tuple[FuncDef, List[ast.AST], Dict[str, int]]]:
    """(ctor, element nodes, property name -> index read by `return self[i]`)"""
    t = tuple_record_elements(ix, c)
    if t is None:
        return None
    newf, elts = t
    props = {}
    for k in ix.mro(c):
        if not isinstance(k, ClassDef):
            continue
        for name, m in k.methods.items():
            if not m.is_property or name in props:
                continue
            r = single_return_expr(m)
            if isinstance(r, ast.Subscript) and isinstance(r.value, ast.Name) and r.value.id == m.self_name:
                idx = r.slice
                if isinstance(idx, ast.Constant) and isinstance(idx.value, int):
                    props[name] = idx.value
    return newf, elts, props


def element_param(newf: FuncDef, elt: ast.AST) -> Optional[str]:
    """the unique constructor parameter mentioned by a stored element expression"""
    names = {p.arg for p in newf.params[1:]}
    used = {n.id for n in ast.walk(elt) if isinstance(n, ast.Name) and n.id in names}
    if len(used) == 1:
        return next(iter(used))
    return None


def check_record(c: Check, rule: str, cls: ClassDef, renames: Optional[Dict[str, str]] = None,
                 required: bool = True) -> int:
    """REC: property <p> reads the tuple slot that stores constructor parameter <p>
    (or renames[p]).  Returns number of judged properties."""
    ix = c.ix
    lay = record_layout(ix, cls)
    if lay is None:
        if required:
            raise AnalysisError('%s: %s is not a tuple record with a literal element tuple' % (rule, cls.key))
        return 0
    newf, elts, props = lay
    slot_param = [element_param(newf, e) for e in elts]
    judged = 0
    renames = renames or {}
    for pname, idx in sorted(props.items()):
        want = renames.get(pname, pname)
        if want not in slot_param:
            # property named differently from every parameter: not judged unless bound by a rename
            if pname in renames:
                c.bad(rule, '%s.%s' % (cls.key, pname), 'no tuple slot stores parameter %r' % want, cls.loc())
            continue
        judged += 1
        key = '%s.%s' % (cls.key, pname)
        if idx >= len(elts) or idx < -len(elts):
            c.bad(rule, key, 'property reads slot %d of a %d-tuple' % (idx, len(elts)), cls.loc())
            continue
        got = slot_param[idx]
        c.expect(got == want, rule, key,
                 'property %s reads tuple slot %d which stores constructor parameter %r (expected %r)' % (
                     pname, idx, got, want), cls.loc(), detail='slot %d' % idx)
    return judged


# ------------------------------------------------------------------ enum helpers

def enum_names(fo: Folder, cls: ClassDef) -> Dict[str, object]:
    return {n: m.value for n, m in fo.enum_members(cls).items()}


def expect_enum_value_agreement(c: Check, rule: str, a: ClassDef, b: ClassDef, skip=()):
    """every name shared by enums a and b has the same value (conversions `B(a.value)` keep the name)"""
    fa, fb = c.fo.enum_members(a), c.fo.enum_members(b)
    shared = sorted(set(fa) & set(fb))
    for n in shared:
        if n in skip:
            continue
        c.expect(fa[n].value == fb[n].value, rule, '%s~%s.%s' % (a.name, b.name, n),
                 'enum member %s has value %r in %s but %r in %s: value-based conversion changes its meaning' % (
                     n, fa[n].value, a.name, fb[n].value, b.name), b.loc())
    # injectivity of values inside each enum (aliases would merge members)
    for e, f in ((a, fa), (b, fb)):
        vals = {}
        for n, m in f.items():
            try:
                if m.value in vals:
                    c.bad(rule, '%s.%s' % (e.name, n), 'value %r duplicates %s (enum alias)' % (m.value, vals[m.value]),
                          e.loc())
                vals[m.value] = n
            except TypeError:
                pass
    return shared


# ------------------------------------------------------------------ forked-result hooks

class ForkHooks(Hooks):
    """Hooks that replace the result of designated calls by a fixed set of labelled abstract outcomes
    (and optional exceptions), so that the analysed function's guards are decided, not guessed."""

    def __init__(self, ix: Index, loop_bound: int = 2):
        self.ix = ix
        self.loop_bound = loop_bound
        self.targets = {}  # predicate -> list of (label, factory | ('raise', ExcCls))
        self.inline_set = set()

    def fork_on(self, pred, outcomes):
        self.targets[pred] = outcomes

    def inline(self, fd, st):
        return fd in self.inline_set

    def on_call(self, interp, node, callee, callee_def, args, kwargs, st):
        from ..absint import Exc
        for pred, outcomes in self.targets.items():
            if pred(callee_def, node, callee):
                res = []
                n = len(outcomes)
                base_event = {'callee': callee_def, 'args': args, 'kwargs': kwargs, 'callee_val': callee,
                              'recv': getattr(callee, 'recv', None)}
                for i, (label, mk) in enumerate(outcomes):
                    s = st if i == n - 1 else st.fork()
                    s.trace.append(Event('call', dict(base_event, label=label), node, s.frame.func))
                    idx = len(s.trace) - 1
                    if isinstance(mk, tuple) and mk[0] == 'raise':
                        e = Exc(mk[1], [], node, origin_event=idx)
                        e.label = label
                        res.append(('raise', e, s))
                    else:
                        v = mk()
                        if isinstance(v, Sym):
                            v.label = label
                            v.event_idx = idx
                        res.append(('val', v, s))
                return res
        return None


def labels_of(path) -> List[str]:
    return [e.data['label'] for e in path.trace if e.kind == 'call' and 'label' in e.data]


def run_factory(c: Check, func_path: str, *const_args):
    """the constant record a repo factory function returns for constant arguments (abstractly evaluated)"""
    from .. import util
    f = c.ix.func(func_path)
    names = [p.arg for p in f.positional_params()]
    args = {n: K(v) for n, v in zip(names, const_args)}
    vals = []
    for p in util.func_paths(c.ix, c.fo, f, Hooks(), args=args):
        if p.kind == 'return':
            vals.append(p.val)
    if len(vals) != 1 or not isinstance(vals[0], K) or not isinstance(vals[0].v, Record):
        raise AnalysisError('factory %s does not return one constant record for constant arguments (%s)' % (
            func_path, [util.describe(v) for v in vals]))
    return vals[0].v


def check_first_error_wins(c: Check, rule: str, fd: FuncDef, is_elem_call, iter_attr: Optional[str] = None,
                           min_paths: int = 4, per_element: int = 1) -> None:
    """FOLD "first non-None wins": the function loops over a sequence, calls an optional-error function per
    element (is_elem_call(callee_def, call_node, callee_value)), returns the first non-None result at once and
    None when every element succeeded; elements are visited in sequence order."""
    from .. import util
    hooks = ForkHooks(c.ix, loop_bound=2)
    hooks.fork_on(is_elem_call, [('none', lambda: NONE),
                                 ('err', lambda: Sym('error', nullness=False, origin=('elem-error',)))])
    paths = util.func_paths(c.ix, c.fo, fd, hooks)
    c.count(len(paths))
    n_with_calls = 0
    for p in paths:
        labs = labels_of(p)
        if labs:
            n_with_calls += 1
        key = '%s/path/%s' % (fd.key.split(':')[-1], '-'.join(labs) or 'empty')
        # every element that is iterated is checked (no element is skipped)
        iters = len([e for e in p.trace if e.kind == 'loop-iter' and e.func is fd])
        # per_element checks are made of every element (all of them unless one of them reports an error)
        full = len(labs) == iters * per_element if 'err' not in labs else -(-len(labs) // per_element) == iters
        c.expect(full, rule, fd.key.split(':')[-1] + '/every-element-checked',
                 '%d elements are iterated but %d checks (%d per element) are made on a path: some element is '
                 'skipped without being checked' % (iters, len(labs), per_element), fd.loc())
        if 'err' in labs:
            halted = labs.index('err') == len(labs) - 1
            v = p.val if p.kind == 'return' else None
            same = isinstance(v, Sym) and getattr(util.root_sym(v), 'label', None) == 'err'
            wrapped = False
            if not same and v is not None:
                con = util.constructed(c.ix, v)
                if con is not None:
                    wrapped = any(getattr(util.root_sym(util.attr_chain(a)[0]), 'label', None) == 'err'
                                  or getattr(util.root_sym(a), 'label', None) == 'err' for a in con[3].values())
            c.expect(halted and (same or wrapped), rule, key,
                     'after an element reported an error: further elements checked=%s, returned %s' % (
                         not halted, util.describe(v) if v is not None else p.kind), fd.loc())
        else:
            ok = p.kind == 'return' and isinstance(p.val, K) and p.val.v is None
            c.expect(ok, rule, key, 'no element reported an error but the result is %s' % (
                util.describe(p.val) if p.kind == 'return' else p.kind), fd.loc())
    # the fold goes on after an element that passed: some path examines a second element
    max_iters = max([len([e for e in p.trace if e.kind == 'loop-iter' and e.func is fd]) for p in paths] or [0])
    c.expect(max_iters >= 2, rule, fd.key.split(':')[-1] + '/goes-on-after-a-passing-element',
             'no path examines a second element: the result is decided by the first element alone, the following '
             'ones are never checked', fd.loc())
    if max_iters >= 2:
        c.floor(rule, 'paths with element checks in ' + fd.key, n_with_calls, min_paths)
    loops = [n for n in walk_own(fd.node) if isinstance(n, ast.For)]
    for lp in loops:
        it = lp.iter
        plain = isinstance(it, (ast.Name, ast.Attribute))
        c.expect(plain, rule, fd.key.split(':')[-1] + '/iterates-in-order',
                 'the loop iterates %s, not the sequence in its own order' % unparse(it), fd.loc())


# ------------------------------------------------------------------ REFS: reported references are complete

def _sdv_ctor_params(ix: Index, cls: ClassDef):
    out = {}
    for k in ix.mro(cls):
        if not isinstance(k, ClassDef):
            continue
        init = k.methods.get('__init__')
        if init is None:
            continue
        for p in init.params[1:]:
            ann = unparse(p.annotation) if p.annotation is not None else ''
            if ('Sdv' in ann or 'SymbolReference' in ann) and 'Validator' not in ann and 'Callable' not in ann:
                out.setdefault((k.key, p.arg), (init, p))
    return out


def _mentioned_by(ix: Index, cls: ClassDef, start: List[str]):
    """self-attributes and constructor parameters that (transitively) feed the given members of cls"""
    seen, names, work = set(), set(), list(start)
    while work:
        n = work.pop()
        if n in seen:
            continue
        seen.add(n)
        f = ix.class_member(cls, n)
        if isinstance(f, FuncDef):
            for x in ast.walk(f.node):
                if isinstance(x, ast.Attribute) and isinstance(x.value, ast.Name) and x.value.id == f.self_name:
                    if x.attr not in names:
                        names.add(x.attr)
                        work.append(x.attr)
        for meth, v, st in ix.self_attr_assignments(cls, n):
            if meth.name == '__init__' and v is not None:
                for x in ast.walk(v):
                    if isinstance(x, ast.Attribute) and isinstance(x.value, ast.Name) and x.value.id == meth.self_name:
                        if x.attr not in names:
                            names.add(x.attr)
                            work.append(x.attr)
                    if isinstance(x, ast.Name):
                        names.add('param:' + x.id)
                # assigned inside a loop of the constructor: what the loop iterates feeds it too
                from ..core import ancestors
                for a in ancestors(st):
                    if a is meth.node:
                        break
                    if isinstance(a, (ast.For, ast.comprehension)):
                        for x in ast.walk(a.iter):
                            if isinstance(x, ast.Name):
                                names.add('param:' + x.id)
    return names


def check_references_complete(c: Check, rule: str, prefixes=('exactly_lib.impls',), floor: int = 40) -> int:
    """REFS: a class that reports symbol usages / references reports those of every symbol-dependent value
    (constructor parameter typed ...Sdv / SymbolReference) it is built from - an unreported reference is never
    validated (definition, type, relativity restriction)."""
    import re
    ix = c.ix
    alltext = '\n'.join(ix.text(n) for n in ix.all_module_names())
    n = 0
    for prefix in prefixes:
        for modname in ix.all_module_names():
            if not (modname == prefix or modname.startswith(prefix + '.')):
                continue
            t = ix.text(modname)
            if 'Sdv' not in t or not ('def symbol_usages' in t or 'def references' in t or 'symbol_usages' in t):
                continue
            m = ix.module(modname)
            for cls in m.all_classes:
                su = ix.class_member(cls, 'symbol_usages')
                rf = ix.class_member(cls, 'references')
                from .. import util
                target = None
                if isinstance(su, FuncDef) and not util.is_abstract_body(su):
                    target = 'symbol_usages'
                elif isinstance(rf, FuncDef) and not util.is_abstract_body(rf):
                    target = 'references'
                if target is None:
                    continue
                if not re.search(r'(?<!class )(?<![\w])%s\(' % re.escape(cls.name), alltext):
                    continue  # never instantiated by name: a base class
                sp = _sdv_ctor_params(ix, cls)
                if not sp:
                    continue
                names = _mentioned_by(ix, cls, [target])
                if 'param:symbol_usages' in names or 'param:references' in names:
                    continue  # the usages are supplied by the creator
                n += 1
                for (ck, pn), (init, p) in sorted(sp.items()):
                    stored = set()
                    consulted = ('param:' + pn) in names
                    for x in ast.walk(init.node):
                        if isinstance(x, ast.Assign):
                            for tg in x.targets:
                                if isinstance(tg, ast.Attribute) and isinstance(tg.value, ast.Name) \
                                        and tg.value.id == init.self_name \
                                        and any(isinstance(y, ast.Name) and y.id == pn for y in ast.walk(x.value)):
                                    stored.add(tg.attr)
                        if isinstance(x, ast.Call) and isinstance(x.func, ast.Attribute) and x.func.attr == '__init__':
                            vals = list(x.args) + [kw.value for kw in x.keywords]
                            if any(isinstance(y, ast.Name) and y.id == pn for a in vals for y in ast.walk(a)):
                                consulted = True  # handed to the base class, judged there
                    c.expect(bool(stored & names) or consulted, rule, 'reports-references/%s(%s)' % (cls.key, pn),
                             '%s.%s does not include the references of its constructor argument %s (stored as %s): '
                             'symbols referenced there are never validated' % (cls.name, target, pn, sorted(stored)),
                             cls.loc())
    c.floor(rule, 'classes whose reported references are checked', n, floor)
    return n


# ------------------------------------------------------------------ FOLD: boolean quantifier / combinator shapes

def check_bool_fold(c: Check, rule: str, fd: FuncDef, is_elem_call, kind: str, min_paths: int = 4,
                    inline=None) -> None:
    """FOLD ALL / ANY over a sequence of matchings, evaluated lazily from left to right:
      ALL: the first element that does not match ends the evaluation with False; True when every element matched
      ANY: the first element that matches ends the evaluation with True; False when none matched
    The per-element matching (is_elem_call) is forked into a matching and a non-matching MatchingResult."""
    from .. import util
    ix = c.ix
    mr = ix.cls('exactly_lib.type_val_prims.matcher.matching_result:MatchingResult')
    hooks = ForkHooks(ix, loop_bound=2)
    hooks.fork_on(is_elem_call, [
        ('T', lambda: K(Record(mr, {'value': True, 'trace': Sym('trace')}))),
        ('F', lambda: K(Record(mr, {'value': False, 'trace': Sym('trace')})))])
    if inline:
        hooks.inline_set = set(inline)
    stop = 'F' if kind == 'ALL' else 'T'
    paths = util.func_paths(ix, c.fo, fd, hooks)
    n = 0
    for p in paths:
        labs = labels_of(p)
        if labs:
            n += 1
        key = '%s/%s/%s' % (fd.key.split(':')[-1], kind, '-'.join(labs) or 'empty')
        want = (stop not in labs) if kind == 'ALL' else (stop in labs)
        lazy = stop not in labs or labs.index(stop) == len(labs) - 1
        got = _bool_of_result(ix, p.val) if p.kind == 'return' else None
        c.expect(lazy and got is want, rule, key,
                 '%s over element results %s: %s, result %s (expected %s%s)' % (
                     kind, labs, 'evaluation continues after the deciding element' if not lazy else 'lazy',
                     got if got is not None else (util.describe(p.val) if p.kind == 'return' else p.kind), want,
                     ', stopping at the first %s' % stop), fd.loc())
    c.floor(rule, 'paths with element evaluations in ' + fd.key, n, min_paths)
    loops = [x for x in walk_own(fd.node) if isinstance(x, ast.For)]
    for lp in loops:
        plain = isinstance(lp.iter, (ast.Name, ast.Attribute))
        c.expect(plain, rule, fd.key.split(':')[-1] + '/left-to-right',
                 'the operands are iterated as %s, not in their own order' % unparse(lp.iter), fd.loc())


def _bool_of_result(ix: Index, v) -> Optional[bool]:
    """the boolean a returned MatchingResult carries: a constant record, the element's own result, or
    build_result(<const>) / MatchingResult(<const>, ...)"""
    from .. import util
    if isinstance(v, K) and isinstance(v.v, Record) and v.v.cls.name == 'MatchingResult':
        x = v.v.args.get('value')
        return x if isinstance(x, bool) else None
    r = util.root_sym(v)
    if isinstance(r, Sym) and r.origin and r.origin[0] == 'call':
        key = r.origin[1]
        args = list(r.origin[2])
        kw = r.origin[3]
        if key.endswith('build_result') or key.endswith(':MatchingResult'):
            a = args[0] if args else kw.get('value')
            if isinstance(a, K) and isinstance(a.v, bool):
                return a.v
    return None


# ------------------------------------------------------------------ REC sweep over the packages a property rests on

def util_is_abstract(f: FuncDef) -> bool:
    from .. import util as _u
    return _u.is_abstract_body(f)


def sweep_records(c: Check, rule: str, prefixes, floor: int = 1, strict: bool = False) -> int:
    """REC over every data class of the given packages: (1) tuple records - a property named like a constructor
    parameter reads the slot that stores that parameter; (2) plain classes - a property named like a constructor
    parameter that returns `self.<attr>` returns the attribute the constructor assigns directly from that parameter.
    A record whose fields are swapped hands every user the wrong value although each user reads it "correctly"."""
    ix = c.ix
    judged = 0
    for name in ix.all_module_names():
        if not any(name == p or name.startswith(p + '.') for p in prefixes):
            continue
        t = ix.text(name)
        if 'class ' not in t:
            continue
        m = ix.module(name)
        for cls in m.all_classes:
            lay = record_layout(ix, cls)
            if lay is not None and lay[0].cls is cls:
                judged += check_record(c, rule, cls, required=False)
                continue
            init = cls.methods.get('__init__')
            if init is None or not init.self_name:
                continue
            params = {p.arg for p in init.params[1:]}
            # a constructor hands a parameter on to the base class under the same name, as given
            for n in walk_own(init.node):
                if isinstance(n, ast.Call) and isinstance(n.func, ast.Attribute) and n.func.attr == '__init__' \
                        and (unparse(n.func.value) == 'super()' or (n.args and isinstance(n.args[0], ast.Name)
                                                                    and n.args[0].id == init.self_name)):
                    base_init = None
                    if unparse(n.func.value) == 'super()':
                        for k in ix.mro(cls)[1:]:
                            if isinstance(k, ClassDef) and k.methods.get('__init__') is not None:
                                base_init = k.methods['__init__']
                                break
                        args = list(n.args)
                    else:
                        d = ix.resolve_static(cls.module, init, n.func.value)
                        base_init = d.methods.get('__init__') if isinstance(d, ClassDef) else None
                        args = list(n.args[1:])
                    if base_init is None:
                        continue
                    bp = [p.arg for p in base_init.positional_params()[1:]]
                    bound = dict(zip(bp, args))
                    for kw in n.keywords:
                        if kw.arg:
                            bound[kw.arg] = kw.value
                    for q, a in sorted(bound.items()):
                        mentions = any(isinstance(x, ast.Name) and x.id == q for x in ast.walk(a))
                        if q in params and mentions:
                            judged += 1
                            conditional = any(isinstance(x, (ast.IfExp, ast.BoolOp)) for x in ast.walk(a))
                            c.expect(not conditional, rule, '%s.__init__->base(%s)' % (cls.key, q),
                                     '%s hands %s to its base class as parameter %s: the value it was given is replaced '
                                     'under a condition (every reader of the record sees something else than what the '
                                     'constructor was called with)' % (cls.name, unparse(a)[:60], q), init.loc())
            if strict:
                # value records: an attribute named like a constructor parameter holds that parameter as given
                for st in walk_own(init.node):
                    if isinstance(st, ast.Assign) and len(st.targets) == 1 and isinstance(st.targets[0], ast.Attribute) \
                            and isinstance(st.targets[0].value, ast.Name) and st.targets[0].value.id == init.self_name \
                            and st.targets[0].attr.lstrip('_') in params:
                        judged += 1
                        pn_ = st.targets[0].attr.lstrip('_')
                        c.expect(isinstance(st.value, ast.Name) and st.value.id == pn_, rule,
                                 '%s.%s-as-given' % (cls.key, pn_),
                                 '%s stores %s as its %s: a value record must hold what it is constructed with (every '
                                 'producer and consumer of the record computes with the altered value)' % (
                                     cls.name, unparse(st.value)[:60], pn_), init.loc())
            stored: Dict[str, set] = {}
            for st in walk_own(init.node):
                if isinstance(st, ast.Assign) and len(st.targets) == 1 and isinstance(st.targets[0], ast.Attribute) \
                        and isinstance(st.targets[0].value, ast.Name) and st.targets[0].value.id == init.self_name \
                        and isinstance(st.value, ast.Name) and st.value.id in params:
                    stored.setdefault(st.targets[0].attr, set()).add(st.value.id)
            for pn, f in sorted(cls.methods.items()):
                if not f.is_property or pn not in params:
                    continue
                r = single_return_expr(f)
                if isinstance(r, ast.Attribute) and isinstance(r.value, ast.Name) and r.value.id == f.self_name \
                        and r.attr in stored:
                    judged += 1
                    c.expect(stored[r.attr] == {pn}, rule, '%s.%s' % (cls.key, pn),
                             'property %s returns self.%s, which the constructor sets from parameter %s (expected %r)' % (
                                 pn, r.attr, sorted(stored[r.attr]), pn), f.loc())
                elif any(v == {pn} for v in stored.values()) and not util_is_abstract(f) \
                        and isinstance(r, ast.Attribute) and isinstance(r.value, ast.Name) and r.value.id == f.self_name:
                    # the parameter is kept as given in an attribute, but the property of its name hands out another
                    # member of the object (a wrapper, a method, another field)
                    judged += 1
                    kept = sorted(a for a, v in stored.items() if v == {pn})
                    c.bad(rule, '%s.%s' % (cls.key, pn),
                          'property %s returns self.%s although the constructor keeps parameter %s in self.%s: readers '
                          'of the record get something else than what it was constructed with' % (
                              pn, r.attr, pn, kept[0]), f.loc())
    c.floor(rule, 'record properties judged in %s' % (', '.join(prefixes)), judged, floor)
    sweep_cross_wiring(c, rule, prefixes, floor=0)
    return judged


# ------------------------------------------------------------------ layers that map a sequence element by element

def mapped_in_order(path, seq_val, sources, method: str) -> bool:
    """seq_val is a literal sequence whose i-th element is the result of `<sources[i]>.<method>(...)` on this path"""
    from .. import util
    from ..absint import ListVal
    items = seq_val.items if isinstance(seq_val, ListVal) else None
    if items is None or len(items) != len(sources):
        return False
    for x, src in zip(items, sources):
        xo = x.origin if isinstance(x, Sym) else None
        if not (xo and xo[0] == 'call' and xo[5] is not None and isinstance(xo[4].func, ast.Attribute)
                and xo[4].func.attr == method):
            return False
        ev = path.trace[xo[5]]
        recv = ev.data.get('recv')
        if recv is None:
            cv = ev.data.get('callee_val')
            recv = cv.origin[1] if isinstance(cv, Sym) and cv.origin and cv.origin[0] == 'attr' else None
        if recv is not src:
            return False
    return True


# ------------------------------------------------------------------ EFF: applying a primitive does not change it

APPLICATION_METHODS = ('transform', '_transform', 'matches_w_trace', 'matches', '_matches', 'matches_emr')


def check_application_purity(c: Check, rule: str, base_paths, floor: int) -> int:
    """a primitive is constructed once and applied many times: no application method changes state stored in the
    object, directly or by handing a stored object to something that changes it (mutation summaries over resolved
    calls, rules/purity.py)"""
    from .purity import Purity
    ix = c.ix
    pu = Purity(ix)
    n = 0
    seen = set()
    for bp in base_paths:
        base = ix.cls(bp)
        for k in ix.subclasses_of(base):
            if k in seen:
                continue
            seen.add(k)
            for mname in APPLICATION_METHODS:
                m = k.methods.get(mname)
                if m is None:
                    continue
                n += 1
                changed = pu.self_mutations(m)
                c.expect(not changed, rule, 'application-keeps-state/%s.%s' % (k.key, mname),
                         '%s.%s changes %s of the object it is applied through: the result of one application depends on '
                         'the applications before it (the same primitive is applied to every file / line / case)' % (
                             k.name, mname, ', '.join('self.' + a for a in changed)), m.loc())
    c.floor(rule, 'application methods of primitives analysed', n, floor)
    return n


# ------------------------------------------------------------------ PLUMB sweep: constructor arguments in their roles

# constructions that swap two same-named arguments on purpose (read and confirmed)
CROSS_WIRING_BY_DEFINITION = {
    ('exactly_lib.util.interval.w_inversion.intervals:WithCustomInversion',
     'exactly_lib.util.interval.w_inversion.intervals:WithCustomInversion.inversion'):
        'the inversion of (interval, its inversion) is (its inversion, the interval): the swap is the definition',
}


def sweep_cross_wiring(c: Check, rule: str, prefixes, floor: int) -> int:
    """At every construction `K(a1, .., an)` inside the given packages: when the expression given for parameter p
    names (as a variable, or as an attribute `x._q` / `x.q`) another parameter q of the same constructor, and does
    not name p, while the expression given for q does not name q either, the two arguments are cross-wired - each
    layer (SDV -> DDV -> ADV -> primitive) hands the matcher where the transformer belongs, the replacement where the
    pattern belongs. Names only count when both are parameters of K, so a renaming between layers is never judged."""
    from .. import util
    ix = c.ix
    judged = 0

    def names_in(e) -> set:
        out = set()
        for x in ast.walk(e):
            if isinstance(x, ast.Name):
                out.add(x.id.lstrip('_'))
            elif isinstance(x, ast.Attribute):
                out.add(x.attr.lstrip('_'))
        return out

    for name in ix.all_module_names():
        if not any(name == p or name.startswith(p + '.') for p in prefixes):
            continue
        m = ix.module(name)
        for node in ast.walk(m.tree):
            if not isinstance(node, ast.Call):
                continue
            f = m.enclosing_func(node)
            try:
                k = ix.callee(m, f, node)
            except Exception:
                k = None
            if not isinstance(k, ClassDef):
                continue
            b = util.ctor_call_args(ix, k, node)
            if not b or len(b) < 2:
                continue
            params = set(b)
            mention = {p: names_in(a) & params for p, a in b.items()}
            for p, ms in sorted(mention.items()):
                if p in ms or not ms:
                    continue
                for q in sorted(ms):
                    if q in mention and q not in mention[q] and p in mention[q] and p < q:
                        judged += 1
                        if (k.key, f.key if f else name) in CROSS_WIRING_BY_DEFINITION:
                            c.ok(rule, 'cross-wired-by-definition/%s(%s<->%s)' % (k.key, p, q),
                                 detail=CROSS_WIRING_BY_DEFINITION[(k.key, f.key if f else name)])
                            continue
                        c.bad(rule, 'cross-wired/%s(%s<->%s)@%s' % (k.key, p, q, f.key if f else name),
                              '%s is constructed with %s for its parameter %s and %s for its parameter %s: the two '
                              'are given in each other\'s place' % (k.name, unparse(b[p])[:50], p, unparse(b[q])[:50], q),
                              '%s:%d' % (m.relpath, node.lineno))
            judged += sum(1 for p, ms in mention.items() if p in ms)
    c.floor(rule, 'constructor arguments that name their own parameter in %s' % ', '.join(prefixes), judged, floor)
    return judged


def suite_reading_method(ix, require):
    """the method of the suite hierarchy reader that reads one suite file: the one method of `_SingleFileReader`
    that resolves a handling setup from the suite document (found by what it does, not by its name)"""
    from .. import util as _u
    shr = 'exactly_lib.test_suite.file_reading.suite_hierarchy_reading'
    cls = ix.cls(shr + ':_SingleFileReader')
    rs = ix.func('exactly_lib.test_suite.file_reading.suite_file_reading:resolve_test_case_handling_setup')
    ms = []
    for s in _u.call_sites_of(ix, rs):
        if s.func is not None and s.func.cls is cls and s.func not in ms:
            ms.append(s.func)
    require(len(ms) == 1, 'the method of _SingleFileReader that resolves the handling setup of a suite is not unique: %s'
            % [m.name for m in ms])
    return ms[0]


# ------------------------------------------------------------------ NULL-vs-ZERO: 0 is a value, not "absent"

_OPT_INT = ('Optional[int]', 'typing.Optional[int]', 'int | None', 'None | int')
_OPT_ENV = ('Optional[Mapping[str, str]]', 'Optional[Dict[str, str]]', 'typing.Optional[Mapping[str, str]]',
            'typing.Optional[Dict[str, str]]')
_OPT_KINDS = _OPT_INT


def _is_opt_int(ann) -> bool:
    return ann is not None and unparse(ann) in _OPT_KINDS


def optional_int_truth_tests(ix: Index, modules, with_environs: bool = False) -> Tuple[int, List[Tuple[str, int, str, str]]]:
    global _OPT_KINDS
    _OPT_KINDS = _OPT_INT + _OPT_ENV if with_environs else _OPT_INT
    try:
        return _optional_truth_tests(ix, modules)
    finally:
        _OPT_KINDS = _OPT_INT


def _optional_truth_tests(ix: Index, modules) -> Tuple[int, List[Tuple[str, int, str, str]]]:
    """(number of optional-int values looked at, [(relpath, line, function key, expression)]) - places where a value
    declared `Optional[int]` (a parameter, a local or an attribute assigned from one, the result of a method of the
    same class declared to return one) decides a branch by its TRUTH value (`if x`, `not x`, `x or d`, `x and y`,
    `a if x else b`): 0 is then treated like None.  `x is None` / `x is not None` / comparisons are the accepted forms."""
    n_values = 0
    hits = []
    for m in modules:
        for cls_or_none, funcs in _functions_by_class(m):
            opt_attrs = set()
            opt_methods = set()
            for f in funcs:
                if _is_opt_int(f.node.returns) and not f.node.args.args[1:]:
                    opt_methods.add(f.name)
                params = {a.arg for a in f.node.args.args + f.node.args.kwonlyargs if _is_opt_int(a.annotation)}
                for n in walk_own(f.node):
                    if isinstance(n, ast.Assign) and len(n.targets) == 1 and isinstance(n.targets[0], ast.Attribute) \
                            and isinstance(n.targets[0].value, ast.Name) and n.targets[0].value.id == 'self' \
                            and isinstance(n.value, ast.Name) and n.value.id in params:
                        opt_attrs.add(n.targets[0].attr)
                    if isinstance(n, ast.AnnAssign) and isinstance(n.target, ast.Attribute) and _is_opt_int(n.annotation) \
                            and isinstance(n.target.value, ast.Name) and n.target.value.id == 'self':
                        opt_attrs.add(n.target.attr)
            for f in funcs:
                names = {a.arg for a in f.node.args.args + f.node.args.kwonlyargs if _is_opt_int(a.annotation)}
                # locals bound once to an optional-int expression
                for name, bs in f.local_bindings().items():
                    if len(bs) == 1 and bs[0][0] in ('assign', 'annassign') and bs[0][1] is not None \
                            and _opt_int_expr(bs[0][1], names, opt_attrs, opt_methods):
                        names = names | {name}
                n_values += len(names)
                for n in walk_own(f.node):
                    for te in _truth_tested(n):
                        if _opt_int_expr(te, names, opt_attrs, opt_methods) or _opt_member_of_typed_object(ix, m, f, te):
                            hits.append((m.relpath, te.lineno, f.key, unparse(te)))
            n_values += len(opt_attrs) + len(opt_methods)
    return n_values, sorted(set(hits))


def _functions_by_class(m):
    by = {}
    for f in m.funcs_by_node.values():
        by.setdefault(f.cls, []).append(f)
    return by.items()


def _opt_int_expr(e, names, opt_attrs, opt_methods) -> bool:
    if isinstance(e, ast.Name):
        return e.id in names
    if isinstance(e, ast.Attribute) and isinstance(e.value, ast.Name) and e.value.id == 'self':
        return e.attr in opt_attrs or e.attr in opt_methods
    if isinstance(e, ast.Call) and not e.args and not e.keywords and isinstance(e.func, ast.Attribute) \
            and isinstance(e.func.value, ast.Name) and e.func.value.id == 'self':
        return e.func.attr in opt_methods
    return False


def _opt_member_of_typed_object(ix: Index, m, f: FuncDef, e) -> bool:
    """`x.member` / `x.member()` where the declared class of x (a parameter or attribute annotation the resolver
    knows) declares `member` to give an optional number (or environment)"""
    call = isinstance(e, ast.Call) and not e.args and not e.keywords
    a = e.func if call else e
    if not isinstance(a, ast.Attribute) or (isinstance(a.value, ast.Name) and a.value.id == f.self_name):
        return False
    try:
        t = ix.type_of(m, f, a.value)
    except Exception:
        return False
    if not isinstance(t, ClassDef):
        return False
    d = ix.class_member(t, a.attr)
    if not isinstance(d, FuncDef) or not _is_opt_int(d.node.returns):
        return False
    return d.is_property != call


def _truth_tested(n):
    if isinstance(n, (ast.If, ast.While, ast.IfExp)):
        yield from _truth_leaves(n.test)
    elif isinstance(n, ast.BoolOp) and not _in_test_position(n):
        for v in n.values[:-1]:
            yield from _truth_leaves(v)
    elif isinstance(n, ast.Assert):
        yield from _truth_leaves(n.test)
    elif isinstance(n, ast.comprehension):
        for i in n.ifs:
            yield from _truth_leaves(i)


def _in_test_position(n) -> bool:
    p = parent(n)
    while isinstance(p, (ast.BoolOp, ast.UnaryOp)):
        n, p = p, parent(p)
    return isinstance(p, (ast.If, ast.While, ast.IfExp, ast.Assert)) and p.test is n


def _truth_leaves(e):
    if isinstance(e, ast.BoolOp):
        for v in e.values:
            yield from _truth_leaves(v)
    elif isinstance(e, ast.UnaryOp) and isinstance(e.op, ast.Not):
        yield from _truth_leaves(e.operand)
    else:
        yield e


def check_zero_is_a_value(c: Check, rule: str, module_names, floor: int, what: str, with_environs: bool = False) -> None:
    from ..report import VERIF_ROOT
    import os
    ix = c.ix
    mods = [ix.module(mn) for mn in module_names]
    if c.tier == 'thorough':
        # thorough: every module of the tree (the rule is the same; the modules named are the ones the property rests on)
        mods = list(ix.all_modules())
    n, hits = optional_int_truth_tests(ix, mods, with_environs)
    for relpath, line, fkey, expr in hits:
        c.bad(rule, 'zero-is-a-value/%s/%s' % (fkey, expr),
              '`%s` is declared optional and is tested by its truth value: 0 / empty is treated like "absent" (%s)' % (
                  expr, what), '%s:%d' % (relpath, line))
    if not hits:
        c.ok(rule, 'zero-is-a-value/%s' % '+'.join(mn.split('.')[-1] for mn in module_names),
             detail='%d optional-int values, none tested by truth value' % n)
    c.floor(rule, 'optional-int values in ' + ', '.join(module_names), n, floor)
    fx = Index(os.path.join(VERIF_ROOT, 'fixtures', 'optint'))
    fm = fx.module('exactly_lib.fixture_optint')
    _, got = optional_int_truth_tests(fx, [fm])
    want = sorted(i + 1 for i, line in enumerate(fm.src.splitlines()) if '# EXPECT truth' in line)
    if sorted(h[1] for h in got) != want:
        raise AnalysisError('%s: positive control of zero-is-a-value failed: reported lines %s, expected %s' % (
            rule, sorted(h[1] for h in got), want))


# ------------------------------------------------------------------ STATE: no container shared by all instances is written

_MUTATORS = ('append', 'add', 'update', 'setdefault', 'extend', 'insert', 'pop', 'clear', 'remove', 'popitem', 'discard')


def shared_class_state_writes(ix: Index, modules) -> Tuple[int, List[Tuple[str, int, str, str]]]:
    """(number of classes looked at, [(relpath, line, method key, container)]): a mutable container bound in a CLASS
    body (one object for all instances, of this class and of every sub class, for the life of the process) that a
    method changes - through self, cls or the class name.  Whatever is stored there by one object (one phase, one
    case, one suite) is found by all others."""
    n_cls = 0
    hits = []
    for m in modules:
        for cd in m.all_classes:
            n_cls += 1
            # containers of this class and of its base classes in the repository
            owners = {}
            for k in [cd] + [b for b in ix.mro(cd)[1:] if isinstance(b, ClassDef)]:
                for st in k.node.body:
                    tg = val = None
                    if isinstance(st, ast.Assign) and len(st.targets) == 1 and isinstance(st.targets[0], ast.Name):
                        tg, val = st.targets[0].id, st.value
                    elif isinstance(st, ast.AnnAssign) and isinstance(st.target, ast.Name) and st.value is not None:
                        tg, val = st.target.id, st.value
                    if tg is None or tg in owners:
                        continue
                    if isinstance(val, (ast.Dict, ast.List, ast.Set, ast.ListComp, ast.DictComp, ast.SetComp)) or (
                            isinstance(val, ast.Call) and isinstance(val.func, ast.Name)
                            and val.func.id in ('dict', 'list', 'set', 'defaultdict', 'OrderedDict')):
                        owners[tg] = k
            if not owners:
                continue
            for f in cd.methods.values():
                own_attrs = set()
                for n in walk_own(f.node):
                    # an instance attribute of the same name assigned in this class shadows the class-level one
                    pass
                for n in walk_own(f.node):
                    a = None
                    if isinstance(n, (ast.Assign, ast.AugAssign, ast.Delete)):
                        tgts = n.targets if isinstance(n, (ast.Assign, ast.Delete)) else [n.target]
                        for t_ in tgts:
                            if isinstance(t_, ast.Subscript) and isinstance(t_.value, ast.Attribute):
                                a = t_.value
                    elif isinstance(n, ast.Call) and isinstance(n.func, ast.Attribute) and n.func.attr in _MUTATORS \
                            and isinstance(n.func.value, ast.Attribute):
                        a = n.func.value
                    if a is None or a.attr not in owners or not isinstance(a.value, ast.Name):
                        continue
                    recv = a.value.id
                    via_class = recv in ('cls',) or any(recv == k.name for k in [cd] + [b for b in ix.mro(cd)[1:]
                                                                                         if isinstance(b, ClassDef)])
                    via_self = recv == f.self_name and not _instance_attr_assigned(cd, ix, a.attr)
                    if via_class or via_self:
                        hits.append((m.relpath, n.lineno, f.key, '%s.%s' % (owners[a.attr].name, a.attr)))
    return n_cls, sorted(set(hits))


def _instance_attr_assigned(cd: ClassDef, ix: Index, attr: str) -> bool:
    for k in [cd] + [b for b in ix.mro(cd)[1:] if isinstance(b, ClassDef)]:
        for f in k.methods.values():
            for n in walk_own(f.node):
                if isinstance(n, (ast.Assign, ast.AnnAssign)):
                    tgts = n.targets if isinstance(n, ast.Assign) else [n.target]
                    for t_ in tgts:
                        if isinstance(t_, ast.Attribute) and isinstance(t_.value, ast.Name) and t_.value.id == f.self_name \
                                and t_.attr == attr:
                            return True
    return False


def check_no_shared_class_state(c: Check, rule: str, prefixes, floor: int, what: str) -> None:
    from ..report import VERIF_ROOT
    import os
    ix = c.ix
    mods = [ix.module(n) for n in ix.all_module_names() if any(n == p or n.startswith(p + '.') for p in prefixes)]
    n, hits = shared_class_state_writes(ix, mods)
    for relpath, line, fkey, cont in hits:
        c.bad(rule, 'shared-class-state/%s/%s' % (fkey, cont),
              '%s changes %s, a container bound in the class body: it is one object for all instances for the life of '
              'the process (%s)' % (fkey.split(':')[-1], cont, what), '%s:%d' % (relpath, line))
    if not hits:
        c.ok(rule, 'shared-class-state/none', detail='%d classes: no method writes a class-level container' % n)
    c.floor(rule, 'classes scanned for shared class-level state', n, floor)
    fx = Index(os.path.join(VERIF_ROOT, 'fixtures', 'evaluators'))
    fm = fx.module('exactly_lib.impls.fixture_class_state')
    _, got = shared_class_state_writes(fx, [fm])
    want = sorted(i + 1 for i, line in enumerate(fm.src.splitlines()) if '# EXPECT shared' in line)
    if sorted(h[1] for h in got) != want:
        raise AnalysisError('%s: positive control of shared-class-state failed: reported lines %s, expected %s' % (
            rule, sorted(h[1] for h in got), want))


# ------------------------------------------------------------------ CONTRA: a value found absent is not used

def _value_key(e):
    if isinstance(e, ast.Name):
        return e.id
    if isinstance(e, ast.Attribute):
        k = _value_key(e.value)
        return None if k is None else k + '.' + e.attr
    return None


def _may_be_none(f, e) -> bool:
    """the expression is a parameter with default None / an Optional annotation, or `self.<attr>` assigned from such
    a parameter or from None somewhere in the class"""
    def optional_param(fn, name):
        if fn is None:
            return False
        a = fn.node.args
        pos = a.posonlyargs + a.args
        defaults = dict(zip([x.arg for x in pos[len(pos) - len(a.defaults):]], a.defaults))
        defaults.update({k.arg: d for k, d in zip(a.kwonlyargs, a.kw_defaults) if d is not None})
        for p_ in pos + a.kwonlyargs:
            if p_.arg == name:
                d = defaults.get(name)
                if isinstance(d, ast.Constant) and d.value is None:
                    return True
                if p_.annotation is not None and unparse(p_.annotation).startswith(('Optional[', 'typing.Optional[')):
                    return True
        return False

    if isinstance(e, ast.Name):
        return optional_param(f, e.id)
    if isinstance(e, ast.Attribute) and isinstance(e.value, ast.Name) and f is not None and f.cls is not None \
            and e.value.id == f.self_name:
        for meth in f.cls.methods.values():
            for n in walk_own(meth.node):
                if isinstance(n, (ast.Assign, ast.AnnAssign)):
                    tgts = n.targets if isinstance(n, ast.Assign) else [n.target]
                    for t_ in tgts:
                        if isinstance(t_, ast.Attribute) and t_.attr == e.attr and isinstance(t_.value, ast.Name) \
                                and t_.value.id == meth.self_name and n.value is not None:
                            if isinstance(n.value, ast.Constant) and n.value.value is None:
                                return True
                            if isinstance(n.value, ast.Name) and optional_param(meth, n.value.id):
                                return True
    return False


def uses_of_values_found_absent(m) -> List[Tuple[int, str, str]]:
    """[(line, function key, expression)]: inside the branch of an `if` in which a name / attribute path has just been
    found to be None or false (`if not x:` / `if x is None:` - or the else-branch of `if x:` / `if x is not None:`),
    an attribute of that same value is read before the value is assigned again.  One of the two is wrong: either the
    test has the wrong polarity (an optional delegate - validator, matcher, message - is consulted exactly when it is
    absent and skipped when it is there) or the use raises AttributeError on None."""
    out = []
    for x in ast.walk(m.tree):
        if not isinstance(x, ast.If):
            continue
        t = x.test
        cases = []
        fx_ = m.enclosing_func(x)
        if isinstance(t, ast.UnaryOp) and isinstance(t.op, ast.Not):
            # a truth test says "None" only for a value that may be None: an optional parameter / attribute (an empty
            # list that is then appended to is not absent)
            if _may_be_none(fx_, t.operand):
                cases.append((_value_key(t.operand), x.body))
        elif isinstance(t, ast.Compare) and len(t.ops) == 1 and isinstance(t.comparators[0], ast.Constant) \
                and t.comparators[0].value is None:
            if isinstance(t.ops[0], ast.Is):
                cases.append((_value_key(t.left), x.body))
            elif isinstance(t.ops[0], ast.IsNot):
                cases.append((_value_key(t.left), x.orelse))
        elif _may_be_none(fx_, t):
            cases.append((_value_key(t), x.orelse))
        for k, stmts in cases:
            if k is None:
                continue
            done = False
            for st_ in stmts:
                if done:
                    break
                for n in ast.walk(st_):
                    if isinstance(n, (ast.Assign, ast.AugAssign, ast.AnnAssign)):
                        tg = n.targets if isinstance(n, ast.Assign) else [n.target]
                        if any(_value_key(t_) == k for t_ in tg):
                            done = True
                            break
                    if isinstance(n, ast.Attribute) and isinstance(n.ctx, ast.Load) and _value_key(n.value) == k:
                        f = m.enclosing_func(n)
                        out.append((n.lineno, f.key if f else m.name, unparse(n)))
    return out


def check_no_use_of_absent_value(c: Check, rule: str, prefixes, floor: int, what: str) -> None:
    from ..report import VERIF_ROOT
    import os
    ix = c.ix
    n_mod = 0
    n_hits = 0
    for name in ix.all_module_names():
        if not any(name == p or name.startswith(p + '.') for p in prefixes):
            continue
        n_mod += 1
        m = ix.module(name)
        for line, fkey, expr in uses_of_values_found_absent(m):
            n_hits += 1
            c.bad(rule, 'absent-value-used/%s/%s' % (fkey, expr),
                  '`%s` is read in the branch where the value before the dot has just been found absent (None / false): '
                  'the test has the wrong polarity or the use raises on None (%s)' % (expr, what),
                  '%s:%d' % (m.relpath, line))
    if not n_hits:
        c.ok(rule, 'absent-value-used/none', detail='%d modules' % n_mod)
    c.floor(rule, 'modules scanned for uses of values found absent', n_mod, floor)
    fx = Index(os.path.join(VERIF_ROOT, 'fixtures', 'evaluators'))
    fm = fx.module('exactly_lib.impls.fixture_absent')
    got = sorted(h[0] for h in uses_of_values_found_absent(fm))
    want = sorted(i + 1 for i, line in enumerate(fm.src.splitlines()) if '# EXPECT absent' in line)
    if got != want:
        raise AnalysisError('%s: positive control of absent-value-used failed: lines %s, expected %s' % (rule, got, want))


# ------------------------------------------------------------------ EXIT: success of a process is "exit code == 0"

def exit_code_comparisons(ix: Index, prefixes) -> Tuple[int, List[Tuple[str, int, str, str]]]:
    """(number of comparisons of an exit code with an integer constant, [(relpath, line, function key, text)] of those
    that ORDER it against the constant (`> 0`, `>= 1`, `< 1` ...)).  A process ended by a signal has a negative exit
    code: `exit_code > 0` takes it for a success, and what it wrote before it died for its result."""
    n = 0
    bad = []
    for name in ix.all_module_names():
        if not any(name == p_ or name.startswith(p_ + '.') for p_ in prefixes):
            continue
        t = ix.text(name)
        if 'exit' not in t and 'returncode' not in t:
            continue
        m = ix.module(name)
        for x in ast.walk(m.tree):
            if not (isinstance(x, ast.Compare) and len(x.ops) == 1):
                continue
            l, r = x.left, x.comparators[0]
            for a, b in ((l, r), (r, l)):
                txt = unparse(a).lower().replace('_', '')
                if ('exitcode' in txt or 'returncode' in txt) and isinstance(b, ast.Constant) \
                        and isinstance(b.value, int) and not isinstance(b.value, bool):
                    n += 1
                    if isinstance(x.ops[0], (ast.Gt, ast.GtE, ast.Lt, ast.LtE)) and b.value in (0, 1, -1):
                        f = m.enclosing_func(x)
                        bad.append((m.relpath, x.lineno, f.key if f else name, unparse(x)))
    return n, bad


def check_exit_code_tests(c: Check, rule: str, prefixes, floor: int, what: str) -> None:
    n, bad = exit_code_comparisons(c.ix, prefixes)
    for relpath, line, fkey, txt in bad:
        c.bad(rule, 'exit-code-ordered-against-zero/%s' % fkey,
              '`%s`: a process ended by a signal has a negative exit code, which this test takes for a success (%s)' % (
                  txt, what), '%s:%d' % (relpath, line))
    if not bad:
        c.ok(rule, 'exit-code-tests', detail='%d comparisons of an exit code with a constant, all == / !=' % n)
    c.floor(rule, 'comparisons of an exit code with a constant', n, floor)


# ------------------------------------------------------------------ SWALLOW: failures and zeroes that silently vanish

# handlers that give "nothing" on purpose (read and confirmed), keyed by (module, function)
SWALLOWING_HANDLERS_BY_DESIGN = {
    ('exactly_lib.tcfs.path_relativity', 'rel_hds_from_rel_any'):
        'enum conversion: None is the documented answer "not relative to a home directory"',
    ('exactly_lib.tcfs.path_relativity', 'rel_sds_from_rel_any'):
        'enum conversion: None is the documented answer "not relative to the sandbox"',
    ('exactly_lib.impls.file_creation', '_create_file'):
        'lstat failing means the file does not exist, which is what creation requires',
    ('exactly_lib.impls.instructions.multi_phase.environ.impl', 'ModifierUnset.modify'):
        'unset of a variable that is not set is a no-op by definition; the handler encloses the one deletion only',
}


def swallow_sites(ix: Index, modules):
    """[(kind, relpath, line, module name, function qualname, text)]:
    loop-swallow  - a `try` whose body contains a loop and whose handler does not raise: the failure of one element
                    silently ends the loop, the following elements are never processed;
    handler-none  - a handler that only passes or returns None (for the validators and resolvers of the repository
                    None is "success" / "nothing to report"): the failure vanishes;
    or-none       - `x or None`: zero, the empty text and the empty collection are turned into "absent"."""
    out = []
    for m in modules:
        for x in ast.walk(m.tree):
            f = m.enclosing_func(x) if isinstance(x, (ast.Try, ast.ExceptHandler, ast.BoolOp)) else None
            qual = f.key.split(':')[-1] if f else '<module>'
            if isinstance(x, ast.Try):
                if any(isinstance(st_, (ast.For, ast.While)) for st_ in x.body):
                    for h in x.handlers:
                        if not any(isinstance(n, ast.Raise) for n in ast.walk(h)):
                            out.append(('loop-swallow', m.relpath, x.lineno, m.name, qual, 'try around a loop'))
            elif isinstance(x, ast.ExceptHandler):
                body = [st_ for st_ in x.body if not (isinstance(st_, ast.Expr) and isinstance(st_.value, ast.Constant))]
                only_pass = len(body) == 1 and isinstance(body[0], ast.Pass)
                ret_none = [n for n in body if isinstance(n, ast.Return)
                            and (n.value is None or (isinstance(n.value, ast.Constant) and n.value.value is None))]
                if only_pass or ret_none:
                    node = body[0] if only_pass else ret_none[0]
                    out.append(('handler-none', m.relpath, node.lineno, m.name, qual,
                                'except %s: %s' % (unparse(x.type) if x.type is not None else '<anything>',
                                                   'pass' if only_pass else 'return None')))
            elif isinstance(x, ast.BoolOp) and isinstance(x.op, ast.Or) and isinstance(x.values[-1], ast.Constant) \
                    and x.values[-1].value is None:
                out.append(('or-none', m.relpath, x.lineno, m.name, qual, unparse(x)))
    return out


def check_nothing_is_swallowed(c: Check, rule: str, prefixes, floor: int, what: str, kinds=('loop-swallow', 'handler-none', 'or-none')) -> None:
    from ..report import VERIF_ROOT
    import os
    ix = c.ix
    mods = [ix.module(n) for n in ix.all_module_names() if any(n == p_ or n.startswith(p_ + '.') for p_ in prefixes)]
    n_bad = 0
    for kind, relpath, line, mname, qual, text in swallow_sites(ix, mods):
        if kind not in kinds:
            continue
        if kind == 'handler-none' and (mname, qual) in SWALLOWING_HANDLERS_BY_DESIGN:
            c.ok(rule, 'swallow/by-design/%s:%s' % (mname, qual), detail=SWALLOWING_HANDLERS_BY_DESIGN[(mname, qual)])
            continue
        n_bad += 1
        msg = {
            'loop-swallow': 'a failure of one element is caught outside the loop and not raised again: the elements '
                            'after it are silently not processed',
            'handler-none': 'the failure is answered with "nothing" (%s), which the callers read as success' % text,
            'or-none': '`%s` turns 0 / an empty text / an empty collection into "absent"' % text,
        }[kind]
        c.bad(rule, 'swallow/%s/%s:%s' % (kind, mname, qual), '%s (%s)' % (msg, what), '%s:%d' % (relpath, line))
    if not n_bad:
        c.ok(rule, 'swallow/none', detail='%d modules' % len(mods))
    c.floor(rule, 'modules scanned for swallowed failures', len(mods), floor)
    fx = Index(os.path.join(VERIF_ROOT, 'fixtures', 'evaluators'))
    fm = fx.module('exactly_lib.impls.fixture_swallow')
    got = sorted((k, l) for k, _, l, _, _, _ in swallow_sites(fx, [fm]))
    want = []
    for i, line in enumerate(fm.src.splitlines()):
        for k in ('loop-swallow', 'handler-none', 'or-none'):
            if '# EXPECT ' + k in line:
                want.append((k, i + 1))
    if got != sorted(want):
        raise AnalysisError('%s: positive control of the swallow rules failed: %s, expected %s' % (rule, got, sorted(want)))
