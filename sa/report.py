"""E10: obligations, findings, evidence files, known findings, exit codes."""
import hashlib
import json
import os
import time
from typing import Optional, List, Dict, Any

from .core import AnalysisError, Index
from .fold import Folder

VERIF_ROOT = os.path.dirname(os.path.dirname(os.path.abspath(__file__)))
KNOWN_FINDINGS_FILE = os.path.join(VERIF_ROOT, 'known_findings.json')


def load_known_findings() -> Dict[str, List[dict]]:
    out: Dict[str, List[dict]] = {}
    if os.path.isfile(KNOWN_FINDINGS_FILE):
        with open(KNOWN_FINDINGS_FILE) as f:
            data = json.load(f)
        for e in data.get('findings', []):
            out.setdefault(e['property'], []).append(e)
    return out


class Finding:
    def __init__(self, rule: str, key: str, msg: str, loc: Optional[str], extra: Optional[dict]):
        self.rule = rule
        self.key = key
        self.msg = msg
        self.loc = loc
        self.extra = extra or {}

    @property
    def full_key(self):
        return self.rule + ' / ' + self.key


class Check:
    """Collects the obligations of one property check."""

    def __init__(self, prop_id: str, tier: str, ix: Index, fo: Folder, verbose: bool = False):
        self.prop_id = prop_id
        self.tier = tier
        self.ix = ix
        self.fo = fo
        self.verbose = verbose
        self.obligations: List[dict] = []
        self._seen = set()
        self.findings: List[Finding] = []
        self.notes: List[str] = []
        self.samples: List[Any] = []
        self.nontrivial = set()
        self.evaluations = 0
        self.clauses: Dict[str, dict] = {}
        self.t0 = time.time()
        self.explanation = ''
        self.trusted_base: List[str] = []
        self.assumptions: List[str] = []
        self.rule_text = ''

    # ---- recording
    def _clause(self, rule):
        return self.clauses.setdefault(rule, {'instances': 0, 'held': 0, 'failed': 0})

    def ok(self, rule: str, key: str, detail: str = '', nontrivial: bool = True):
        if (rule, key, True) in self._seen:
            self.evaluations += 1
            return
        self._seen.add((rule, key, True))
        self.obligations.append({'rule': rule, 'key': key, 'ok': True, 'detail': detail})
        c = self._clause(rule)
        c['instances'] += 1
        c['held'] += 1
        self.evaluations += 1
        if nontrivial:
            self.nontrivial.add((rule, key))
        if self.verbose:
            print('  ok   %-10s %s %s' % (rule, key, detail))

    def bad(self, rule: str, key: str, msg: str, loc: Optional[str] = None, extra: Optional[dict] = None):
        if (rule, key, False) in self._seen:
            self.evaluations += 1
            return
        self._seen.add((rule, key, False))
        self.obligations.append({'rule': rule, 'key': key, 'ok': False, 'detail': msg})
        c = self._clause(rule)
        c['instances'] += 1
        c['failed'] += 1
        self.evaluations += 1
        self.nontrivial.add((rule, key))
        self.findings.append(Finding(rule, key, msg, loc, extra))
        if self.verbose:
            print('  BAD  %-10s %s: %s [%s]' % (rule, key, msg, loc))

    def expect(self, cond: bool, rule: str, key: str, msg: str, loc: Optional[str] = None, detail: str = '',
               extra: Optional[dict] = None):
        if cond:
            self.ok(rule, key, detail)
        else:
            self.bad(rule, key, msg, loc, extra)
        return cond

    def note(self, msg: str):
        self.notes.append(msg)
        if self.verbose:
            print('  note', msg)

    def sample(self, obj):
        if len(self.samples) < 12:
            self.samples.append(obj)

    def count(self, n: int = 1):
        self.evaluations += n

    def floor(self, rule: str, what: str, count: int, minimum: int):
        """fail closed on vacuity"""
        if count < minimum:
            raise AnalysisError('%s: instance floor missed for %s: matched %d, expected at least %d '
                                '(the rule would pass vacuously)' % (rule, what, count, minimum))
        self._clause(rule).setdefault('floors', {})[what] = {'matched': count, 'floor': minimum}

    def require(self, cond, msg: str):
        if not cond:
            raise AnalysisError(msg)

    # ---- finishing
    def finish(self, evidence_dir: str, replay_dir: str, seed: int) -> int:
        known = load_known_findings().get(self.prop_id, [])
        known_by_key = {e['key']: e for e in known}
        violations = []
        known_hit = []
        for f in self.findings:
            if f.full_key in known_by_key:
                known_hit.append(f)
            else:
                violations.append(f)
        for f in known_hit:
            print('KNOWN-FINDING: property=%s %s: %s' % (self.prop_id, f.full_key, f.msg))
        os.makedirs(replay_dir, exist_ok=True)
        for f in violations:
            h = hashlib.sha1(f.full_key.encode()).hexdigest()[:10]
            path = os.path.join(replay_dir, '%s-%s.json' % (self.prop_id, h))
            with open(path, 'w') as fp:
                json.dump({'property': self.prop_id, 'rule': f.rule, 'construct': f.key, 'message': f.msg,
                           'location': f.loc, 'details': f.extra,
                           'replay': './verify check %s --tier %s   # re-runs the rule on the current tree'
                                     % (self.prop_id, self.tier)}, fp, indent=1, default=str)
            print('%s: %s: %s' % (f.loc or '?', f.full_key, f.msg))
            print('VIOLATION property=%s replay=%s' % (self.prop_id, path))
        wall = time.time() - self.t0
        n_obl = len(self.obligations)
        n_ok = sum(1 for o in self.obligations if o['ok']) + len(known_hit)
        ev = {
            'property_id': self.prop_id,
            'tier': self.tier,
            'seed': seed,
            'level': 'other',
            'coverage': {
                'explanation': self.explanation,
                'rule': self.rule_text or 'one obligation per (rule, construct) instance found in the current source; '
                                          'non-trivial = the decision needed a resolved definition, a folded table or '
                                          'an enumerated path (distinct (rule, construct) pairs are counted)',
                'obligations': n_obl,
                'discharged': n_ok,
                'evaluations': max(self.evaluations, 1),
                'distinct_nontrivial': len(self.nontrivial),
                'samples': self.samples or [o for o in self.obligations[:5]],
                'clauses': self.clauses,
                'modules_parsed': self.ix.parsed,
                'known_findings_present': [f.full_key for f in known_hit],
                'notes': self.notes,
                'trusted_base': self.trusted_base or ['CPython ast parser', 'the resolver/folder of /verif/sa'],
                'checker_cmd': './verify check %s --tier %s' % (self.prop_id, self.tier),
                'exhaustive': True,
            },
            'assumptions': self.assumptions,
            'wall_s': round(wall, 3),
            'violations': len(violations),
        }
        os.makedirs(evidence_dir, exist_ok=True)
        with open(os.path.join(evidence_dir, self.prop_id + '.json'), 'w') as fp:
            json.dump(ev, fp, indent=1, default=str)
        print('%s tier=%s obligations=%d held=%d known=%d violations=%d modules_parsed=%d wall=%.2fs' % (
            self.prop_id, self.tier, n_obl, n_ok - len(known_hit), len(known_hit), len(violations), self.ix.parsed, wall))
        return 1 if violations else 0
