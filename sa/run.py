"""Command line of the static checks:  python -m sa.run check Cnn [--tier quick|thorough] [--repo DIR] [-v]"""
import argparse
import importlib
import json
import os
import sys
import time
import traceback

import sa

from .core import Index, AnalysisError
from .fold import Folder
from .report import Check, VERIF_ROOT


def run_check(prop_id: str, tier: str, repo: str, verbose: bool, evidence_dir: str, replay_dir: str) -> int:
    seed = 0
    try:
        seed = int(os.environ.get('VERIF_SEED', '0'))
    except ValueError:
        pass
    t0 = time.time()
    c = None
    try:
        mod = importlib.import_module('sa.rules.' + prop_id)
        ix = Index(repo)
        fo = Folder(ix)
        c = Check(prop_id, tier, ix, fo, verbose)
        # every clause of the property is run even when an earlier one meets something it does not understand (or
        # crashes): what the other clauses find is reported (exit 1) together with the ANALYSIS-ERROR of the first
        # clause that failed - a violation is never hidden behind an "anchor not found" elsewhere in the same check
        deferred = []
        for name in sorted(vars(mod)):
            fn = getattr(mod, name)
            if name.startswith('clause_') and callable(fn) and getattr(fn, '__module__', None) == mod.__name__ \
                    and not getattr(fn, '_sa_wrapped', False):
                def wrapped(*a, _fn=fn, **k):
                    try:
                        return _fn(*a, **k)
                    except AnalysisError as ex_:
                        deferred.append(str(ex_))
                    except RecursionError:
                        deferred.append('analyser crashed: RecursionError in %s' % _fn.__name__)
                    except Exception as ex_:
                        traceback.print_exc()
                        deferred.append('analyser crashed in %s: %s: %s' % (_fn.__name__, type(ex_).__name__, ex_))
                    return None
                wrapped._sa_wrapped = True
                setattr(mod, name, wrapped)
        mod.check(c)
        if deferred:
            raise AnalysisError(deferred[0] + (' (and %d more)' % (len(deferred) - 1) if len(deferred) > 1 else ''))
        return c.finish(evidence_dir, replay_dir, seed)
    except AnalysisError as ex:
        msg = str(ex)
    except RecursionError as ex:
        msg = 'analyser crashed: RecursionError'
    except Exception as ex:  # a crash of the analyser is never a verdict about the property
        traceback.print_exc()
        msg = 'analyser crashed: %s: %s' % (type(ex).__name__, ex)
    print('ANALYSIS-ERROR property=%s %s' % (prop_id, msg))
    if c is not None and c.findings:
        # rules that completed before the analyser gave up found violations: report them
        c.note('ANALYSIS-ERROR after these findings: ' + msg)
        rc = c.finish(evidence_dir, replay_dir, seed)
        return rc if rc == 1 else 2
    _error_evidence(prop_id, tier, seed, evidence_dir, msg, time.time() - t0)
    return 2


def _error_evidence(prop_id, tier, seed, evidence_dir, msg, wall):
    try:
        os.makedirs(evidence_dir, exist_ok=True)
        with open(os.path.join(evidence_dir, prop_id + '.json'), 'w') as fp:
            json.dump({'property_id': prop_id, 'tier': tier, 'seed': seed, 'level': 'other',
                       'coverage': {'explanation': 'ANALYSIS-ERROR: the analyser could not decide: ' + msg,
                                    'obligations': 0, 'discharged': 0, 'analysis_error': msg},
                       'wall_s': round(wall, 3), 'violations': 0}, fp, indent=1)
    except OSError:
        pass


def selfcheck() -> int:
    """setup: every module of the analyser compiles and imports; the engine parses the repository index"""
    import pkgutil
    import sa.rules
    n = 0
    for mi in list(pkgutil.iter_modules(sa.__path__, 'sa.')) + list(pkgutil.iter_modules(sa.rules.__path__, 'sa.rules.')):
        if mi.name.endswith('.rules') or mi.name == 'sa.run':
            continue
        importlib.import_module(mi.name)
        n += 1
    print('selfcheck: %d analyser modules import' % n)
    return 0


def main(argv=None) -> int:
    ap = argparse.ArgumentParser(prog='verify')
    sub = ap.add_subparsers(dest='cmd', required=True)
    pc = sub.add_parser('check')
    pc.add_argument('property')
    pa = sub.add_parser('all')
    sub.add_parser('selfcheck')
    for p in (pc, pa):
        p.add_argument('--tier', default=os.environ.get('VERIF_TIER') or 'quick', choices=['quick', 'thorough'])
        p.add_argument('--repo', default=os.environ.get('VERIF_REPO', '/repo'))
        p.add_argument('--evidence-dir', default=os.path.join(VERIF_ROOT, 'evidence'))
        p.add_argument('--replay-dir', default=os.path.join(VERIF_ROOT, 'replays'))
        p.add_argument('-v', '--verbose', action='store_true')
    a = ap.parse_args(argv)
    if a.cmd == 'selfcheck':
        return selfcheck()
    if a.cmd == 'check':
        return run_check(a.property, a.tier, a.repo, a.verbose, a.evidence_dir, a.replay_dir)
    if a.cmd == 'all':
        with open(os.path.join(VERIF_ROOT, 'MANIFEST.json')) as f:
            man = json.load(f)
        worst = 0
        for ch in man['checks']:
            rc = run_check(ch['property_id'], a.tier, a.repo, a.verbose, a.evidence_dir, a.replay_dir)
            worst = max(worst, rc)
        return worst
    return 2


if __name__ == '__main__':
    sys.exit(main())
