"""E5-E7: syntax-directed path / typestate interpreter.

Enumerates the paths of a function (inlining calls inside a chosen scope) over
a small abstract value domain:

    K(v)        a folded constant (python constant, enum member, record, Ref)
    Sym         opaque value with optional declared class, nullness / truth facts
                and an *origin* (parameter, attribute of ..., result of call ...)
    Obj         abstract instance whose attributes are tracked (the receiver)
    Exc         an exception instance (class + constructor arguments)
    FuncVal / BoundMethod / ListVal

No repository code is executed; no arithmetic or string value is computed
beyond what the constant folder folds.  Branch tests that the guard recogniser
(E7) understands are decided or refine facts; every other test forks into both
branches without facts.  Calls outside the scope are opaque events; designated
may-raise calls fork into a normal and one exceptional outcome per class.
"""
import ast
import builtins as _py_builtins
from typing import List, Optional, Tuple, Dict, Any, Callable

from .core import (Index, Module, FuncDef, ClassDef, VarDef, ParamDef, LocalDef, External, ModuleRef, Def,
                   AnalysisError, dotted_name, unparse, walk_own)
from .fold import Folder, Unknown, EnumMember, Ref, Record, is_unknown, tuple_record_elements, Opaque


def util_is_abstract(fd) -> bool:
    body = [s for s in fd.node.body
            if not (isinstance(s, ast.Expr) and isinstance(s.value, ast.Constant) and isinstance(s.value.value, str))]
    return len(body) == 1 and isinstance(body[0], ast.Raise)

MAX_PATHS = 60000
MAX_DEPTH = 40


# ---------------------------------------------------------------- values

class AVal(Opaque):
    pass


def wrap(v) -> 'AVal':
    """folded value or abstract value -> abstract value"""
    return v if isinstance(v, AVal) else K(v)


def unwrap(v):
    """abstract value -> what is stored inside a record (constants unwrapped, abstract values kept)"""
    return v.v if isinstance(v, K) else v


class K(AVal):
    __slots__ = ('v',)

    def __init__(self, v):
        self.v = v

    def __repr__(self):
        return 'K(%r)' % (self.v,)


NONE = K(None)


class Sym(AVal):
    _n = 0

    def __init__(self, tag: str, cls: Optional[Def] = None, origin=None, node=None,
                 nullness: Optional[bool] = None, truth: Optional[bool] = None, elem_cls: Optional[Def] = None):
        Sym._n += 1
        self.id = Sym._n
        self.tag = tag
        self.cls = cls
        self.origin = origin  # ('param', name) | ('attr', base, name) | ('call', callee_key, args, kwargs, node) | ...
        self.node = node
        self.nullness = nullness  # True: is None; False: not None; None: unknown
        self.truth = truth
        self.elem_cls = elem_cls
        self.neq = ()  # constants this value is known to differ from

    def refined(self, **kw):
        s = Sym(self.tag, self.cls, self.origin, self.node, self.nullness, self.truth, self.elem_cls)
        s.neq = self.neq
        for k, v in kw.items():
            setattr(s, k, v)
        s.root = getattr(self, 'root', self)
        return s

    def __repr__(self):
        return 'Sym(%s%s)' % (self.tag, ':' + self.cls.name if isinstance(self.cls, ClassDef) else '')


class Obj(AVal):
    def __init__(self, cls: ClassDef, oid: int):
        self.cls = cls
        self.oid = oid

    def __repr__(self):
        return 'Obj(%s#%d)' % (self.cls.name, self.oid)


class Exc(AVal):
    def __init__(self, cls: Def, args: List[AVal], node=None, origin_event: Optional[int] = None):
        self.cls = cls
        self.args = args
        self.node = node
        self.origin_event = origin_event

    def __repr__(self):
        return 'Exc(%s)' % (self.cls.key.split(':')[-1],)


class FuncVal(AVal):
    def __init__(self, fd: Optional[FuncDef], closure=None, lam: Optional[ast.Lambda] = None, module=None,
                 owner_func=None):
        self.fd = fd
        self.closure = closure  # Frame of the defining function (for nested defs / lambdas)
        self.lam = lam
        self.module = module
        self.owner_func = owner_func

    def __repr__(self):
        return 'FuncVal(%s)' % (self.fd.key if self.fd else 'lambda')


class BoundMethod(AVal):
    def __init__(self, recv: AVal, fd: FuncDef):
        self.recv = recv
        self.fd = fd

    def __repr__(self):
        return 'Bound(%r.%s)' % (self.recv, self.fd.name)


class ListVal(AVal):
    def __init__(self, items: List[AVal], is_tuple=False):
        self.items = items
        self.is_tuple = is_tuple

    def __repr__(self):
        return 'ListVal(%r)' % (self.items,)


class StrCat(AVal):
    """a string that is the concatenation of constant strings and unknown strings (`Sym`s standing for *any* string):
    the symbolic string domain of EVAL rules over text-building helpers. Normal form: no empty constant, adjacent
    constants merged."""

    def __init__(self, parts: List[AVal]):
        out: List[AVal] = []
        for p in parts:
            if isinstance(p, StrCat):
                sub = p.parts
            else:
                sub = [p]
            for q in sub:
                if isinstance(q, K):
                    if q.v == '':
                        continue
                    if out and isinstance(out[-1], K):
                        out[-1] = K(out[-1].v + q.v)
                        continue
                out.append(q)
        self.parts = out

    def unknowns(self):
        return [p for p in self.parts if not isinstance(p, K)]

    def certainly_nonempty(self) -> bool:
        return any(isinstance(p, K) or getattr(p, 'truth', None) is True for p in self.parts)

    def key(self, known_empty=()):
        """comparable normal form; unknown strings known to be empty on the path are dropped"""
        n = StrCat([p for p in self.parts if isinstance(p, K) or not any(p is e for e in known_empty)])
        return tuple(('k', p.v) if isinstance(p, K) else ('s', id(p)) for p in n.parts)

    def __repr__(self):
        return 'StrCat(%s)' % ' + '.join(repr(p.v) if isinstance(p, K) else getattr(p, 'tag', '?') for p in self.parts)


class IterVal(AVal):
    """an *iterator* over a literal sequence: every traversal continues where the one before it stopped (the state -
    how many elements have been taken - lives in the heap of the path, key ('iter', iid))"""
    _next_id = 0

    def __init__(self, items: List[AVal]):
        self.items = items
        IterVal._next_id += 1
        self.iid = IterVal._next_id

    def taken(self, st) -> int:
        v = st.heap.get(('iter', self.iid))
        return v.v if isinstance(v, K) else 0

    def __repr__(self):
        return 'IterVal(%d items)' % len(self.items)


def as_strcat(v) -> Optional['StrCat']:
    if isinstance(v, StrCat):
        return v
    if isinstance(v, K) and isinstance(v.v, str):
        return StrCat([v])
    return None


# ---------------------------------------------------------------- state

class Event:
    __slots__ = ('kind', 'data', 'node', 'func')

    def __init__(self, kind, data, node=None, func=None):
        self.kind = kind
        self.data = data
        self.node = node
        self.func = func

    def __repr__(self):
        return '%s(%s)' % (self.kind, self.data)


class Frame:
    def __init__(self, func: Optional[FuncDef], module: Module, env: Dict[str, AVal], closure: Optional['Frame']):
        self.func = func
        self.module = module
        self.env = env
        self.closure = closure
        self.cur_exc: Optional[Exc] = None


class State:
    def __init__(self):
        self.frames: List[Frame] = []
        self.heap: Dict[Tuple[int, str], AVal] = {}
        self.trace: List[Event] = []
        self.guards: List[Tuple[ast.AST, bool]] = []
        self.truncated = False

    def fork(self) -> 'State':
        s = State()
        # frames: copy env dicts; closure links must be remapped to the copies
        mapping = {}
        for f in self.frames:
            nf = Frame(f.func, f.module, dict(f.env), None)
            nf.cur_exc = f.cur_exc
            mapping[id(f)] = nf
            s.frames.append(nf)
        for f, nf in zip(self.frames, s.frames):
            if f.closure is not None:
                nf.closure = mapping.get(id(f.closure), f.closure)
        s._closure_map = mapping
        s.heap = dict(self.heap)
        s.trace = list(self.trace)
        s.guards = list(self.guards)
        s.truncated = self.truncated
        return s

    @property
    def frame(self) -> Frame:
        return self.frames[-1]

    def replace_value(self, old: AVal, new: AVal):
        for f in self.frames:
            for k, v in f.env.items():
                if v is old:
                    f.env[k] = new
        for k, v in self.heap.items():
            if v is old:
                self.heap[k] = new


# callees that traverse an iterator they are given to its end (opt-in model, Hooks.iterators_are_consumed)
ITERATOR_CONSUMERS = {'writelines', 'list', 'tuple', 'sorted', 'join', 'extend', 'sum', 'set', 'frozenset', 'dict',
                      'max', 'min', 'any', 'all'}

_PURE_STR_METHODS = {'lower', 'upper', 'strip', 'lstrip', 'rstrip', 'startswith', 'endswith', 'isspace', 'isdigit',
                     'isalnum', 'capitalize', 'title', 'replace', 'find', 'count'}

# outcomes of statements
NORMAL, RETURN, RAISE, BREAK, CONTINUE = 'normal', 'return', 'raise', 'break', 'continue'


class Outcome:
    __slots__ = ('kind', 'val', 'st')

    def __init__(self, kind, val, st):
        self.kind = kind
        self.val = val
        self.st = st


class Hooks:
    """Rule-specific policy of the interpreter."""
    loop_bound = 2

    def inline(self, fd: FuncDef, st: State) -> bool:
        return False

    def on_call(self, interp: 'Interp', node: ast.Call, callee: AVal, callee_def: Optional[Def], args: List[AVal],
                kwargs: Dict[str, AVal], st: State) -> Optional[List[Tuple[str, Any, State]]]:
        """return a list of ('val', v, st) / ('raise', exc, st) to override default handling"""
        return None

    def may_raise(self, callee_def: Optional[Def], node: ast.Call, st: State) -> List[Def]:
        return []

    def with_value(self, interp: 'Interp', ctx: AVal, node, st: State) -> Optional[AVal]:
        """the value bound by `with <ctx> as name` (None: an opaque value derived from ctx)"""
        return None

    def inline_class(self, cd: ClassDef, st: State) -> bool:
        """construct instances of this class by running its __init__ abstractly"""
        return False

    def make_exc(self, interp: 'Interp', exc_cls: Def, node: ast.Call, ev_idx: Optional[int], st: State) -> 'Exc':
        return Exc(exc_cls, [], node, origin_event=ev_idx)

    def record_call(self, callee_def: Optional[Def], node: ast.Call) -> bool:
        return True

    def opaque_result(self, interp, callee_def, node, args, kwargs, st) -> Optional[AVal]:
        return None


class Path:
    def __init__(self, kind: str, val, st: State):
        self.kind = kind  # return | raise | normal
        self.val = val
        self.trace = st.trace
        self.guards = st.guards
        self.state = st
        self.truncated = st.truncated

    def calls(self, pred=None):
        return [e for e in self.trace if e.kind == 'call' and (pred is None or pred(e))]


class Interp:
    def __init__(self, ix: Index, fo: Folder, hooks: Optional[Hooks] = None):
        self.ix = ix
        self.fo = fo
        self.hooks = hooks or Hooks()
        self.n_paths = 0
        self._oid = 0
        self.depth = 0
        self.unknown_constructs: List[str] = []

    # ------------------------------------------------------------ entry
    def new_obj(self, cls: ClassDef) -> Obj:
        self._oid += 1
        return Obj(cls, self._oid)

    def param_syms(self, fd: FuncDef, given: Optional[Dict[str, AVal]] = None) -> Dict[str, AVal]:
        env = {}
        given = given or {}
        a = fd.node.args
        pos = fd.positional_params()
        defaults = {}
        for p, d in zip(pos[len(pos) - len(a.defaults):], a.defaults):
            defaults[p.arg] = d
        for p, d in zip(a.kwonlyargs, a.kw_defaults):
            if d is not None:
                defaults[p.arg] = d
        for p in fd.params:
            if p.arg in given:
                env[p.arg] = given[p.arg]
            else:
                env[p.arg] = self.sym_for_param(fd, p)
        for p in (a.vararg, a.kwarg):
            if p is not None:
                env[p.arg] = given.get(p.arg, Sym('param:' + p.arg, origin=('param', p.arg)))
        return env

    def sym_for_param(self, fd: FuncDef, p: ast.arg) -> Sym:
        cls = self.ix.annotation_class(fd.module, fd.parent, p.annotation)
        elem = self.ix.annotation_elem_class(fd.module, fd.parent, p.annotation)
        nullness = None
        if p.annotation is not None and 'Optional' not in unparse(p.annotation) and cls is not None:
            nullness = None  # annotations are not trusted for nullness
        return Sym('param:' + p.arg, cls=cls, origin=('param', p.arg, fd.key), elem_cls=elem, nullness=nullness)

    def run_function(self, fd: FuncDef, args: Optional[Dict[str, AVal]] = None, st: Optional[State] = None,
                     recv: Optional[AVal] = None) -> List[Path]:
        st = st or State()
        given = dict(args or {})
        if fd.self_name and fd.self_name not in given:
            if recv is None:
                if fd.cls is None:
                    raise AnalysisError('no receiver for ' + fd.key)
                recv = self.new_obj(fd.cls)
            given[fd.self_name] = recv
        env = self.param_syms(fd, given)
        outs = self.call_function(fd, env, st, None)
        paths = []
        for kind, val, s in outs:
            paths.append(Path('return' if kind == 'val' else 'raise', val, s))
        return paths

    def instantiate(self, cls: ClassDef, st: State, args: Optional[Dict[str, AVal]] = None) -> List[Tuple[Obj, State]]:
        """run cls.__init__ abstractly on a fresh object (parameters symbolic unless given)"""
        obj = self.new_obj(cls)
        init = self.ix.class_member(cls, '__init__')
        if not isinstance(init, FuncDef):
            return [(obj, st)]
        given = dict(args or {})
        given[init.self_name] = obj
        env = self.param_syms(init, given)
        outs = self.call_function(init, env, st, None)
        res = []
        for kind, val, s in outs:
            if kind != 'val':
                raise AnalysisError('constructor %s raises on a path' % init.key)
            res.append((obj, s))
        return res

    # ------------------------------------------------------------ function calls
    def call_function(self, fd: FuncDef, env: Dict[str, AVal], st: State, closure: Optional[Frame]):
        if self.depth > MAX_DEPTH:
            raise AnalysisError('inlining depth exceeded at ' + fd.key)
        active = [f.func for f in st.frames if f.func is not None]
        if active.count(fd) >= getattr(self.hooks, 'max_recursion', 2):
            raise AnalysisError('recursion in scope at ' + fd.key)
        self.depth += 1
        try:
            fr = Frame(fd, fd.module, env, closure)
            st.frames.append(fr)
            outs = self.exec_block(fd.node.body, st)
            res = []
            for o in outs:
                popped = o.st.frames.pop()
                if o.kind == RETURN:
                    res.append(('val', o.val if o.val is not None else NONE, o.st))
                elif o.kind == NORMAL:
                    res.append(('val', NONE, o.st))
                elif o.kind == RAISE:
                    res.append(('raise', o.val, o.st))
                else:
                    raise AnalysisError('break/continue escaped function ' + fd.key)
            return res
        finally:
            self.depth -= 1

    def _count_path(self):
        self.n_paths += 1
        if self.n_paths > MAX_PATHS:
            raise AnalysisError('path limit exceeded (%d)' % MAX_PATHS)

    # ------------------------------------------------------------ statements
    def exec_block(self, stmts, st: State) -> List[Outcome]:
        outs = [Outcome(NORMAL, None, st)]
        for s in stmts:
            nxt = []
            for o in outs:
                if o.kind != NORMAL:
                    nxt.append(o)
                else:
                    nxt.extend(self.exec_stmt(s, o.st))
            outs = nxt
            if not any(o.kind == NORMAL for o in outs):
                break
        return outs

    def _from_ev(self, results, fn) -> List[Outcome]:
        """results of expression evaluation -> outcomes; fn(val, st) -> List[Outcome] for normal values"""
        outs = []
        for kind, v, s in results:
            if kind == 'raise':
                outs.append(Outcome(RAISE, v, s))
            else:
                outs.extend(fn(v, s))
        return outs

    def exec_stmt(self, s, st: State) -> List[Outcome]:
        if isinstance(s, ast.Expr):
            if isinstance(s.value, ast.Constant):
                return [Outcome(NORMAL, None, st)]
            if isinstance(s.value, (ast.Yield, ast.YieldFrom)):
                inner = s.value.value
                if inner is None:
                    return [Outcome(NORMAL, None, st)]
                return self._from_ev(self.ev(inner, st), lambda v, s2: self._yield(v, s2, s))
            return self._from_ev(self.ev(s.value, st), lambda v, s2: [Outcome(NORMAL, None, s2)])
        if isinstance(s, ast.Assign):
            def assign(v, s2):
                for t in s.targets:
                    self.assign_target(t, v, s2)
                return [Outcome(NORMAL, None, s2)]

            return self._from_ev(self.ev(s.value, st), assign)
        if isinstance(s, ast.AnnAssign):
            if s.value is None:
                return [Outcome(NORMAL, None, st)]

            def assign1(v, s2):
                self.assign_target(s.target, v, s2)
                return [Outcome(NORMAL, None, s2)]

            return self._from_ev(self.ev(s.value, st), assign1)
        if isinstance(s, ast.AugAssign):
            def aug(v, s2):
                cur = None
                if isinstance(s.target, ast.Name):
                    cur = self.lookup_name(s.target.id, s2)
                newv = None
                if isinstance(cur, K) and isinstance(v, K) and isinstance(cur.v, (int, str, tuple)) \
                        and isinstance(v.v, (int, str, tuple)) and not isinstance(cur.v, bool):
                    # counters / constant accumulation: fold
                    fv = self.fo._binop(s.op, cur.v, v.v)
                    if not is_unknown(fv):
                        newv = K(fv)
                if isinstance(cur, ListVal) and isinstance(v, ListVal) and isinstance(s.op, ast.Add) \
                        and cur.is_tuple == v.is_tuple:
                    newv = ListVal(cur.items + v.items, cur.is_tuple)
                s2.trace.append(Event('aug', (unparse(s.target), type(s.op).__name__, v), s, s2.frame.func))
                self.assign_target(s.target, newv if newv is not None else Sym('aug', node=s,
                                                                                  origin=('aug', cur, v)), s2)
                return [Outcome(NORMAL, None, s2)]

            return self._from_ev(self.ev(s.value, st), aug)
        if isinstance(s, ast.Return):
            if s.value is None:
                return [Outcome(RETURN, NONE, st)]
            return self._from_ev(self.ev(s.value, st), lambda v, s2: [Outcome(RETURN, v, s2)])
        if isinstance(s, ast.Raise):
            if s.exc is None:
                cur = st.frame.cur_exc
                if cur is None:
                    cur = Exc(External('builtins.BaseException'), [], s)
                return [Outcome(RAISE, cur, st)]

            def do_raise(v, s2):
                return [Outcome(RAISE, self.as_exc(v, s, s2), s2)]

            return self._from_ev(self.ev(s.exc, st), do_raise)
        if isinstance(s, ast.If):
            outs = []
            raises = []
            for truth, s2 in self._ev_cond(s.test, st, raises):
                outs.extend(self.exec_block(s.body if truth else s.orelse, s2))
            outs.extend(Outcome(RAISE, v, s2) for v, s2 in raises)
            return outs
        if isinstance(s, (ast.For, ast.AsyncFor)):
            return self.exec_for(s, st)
        if isinstance(s, ast.While):
            return self.exec_while(s, st)
        if isinstance(s, ast.Try):
            return self.exec_try(s, st)
        if isinstance(s, (ast.With, ast.AsyncWith)):
            return self.exec_with(s, 0, st)
        if isinstance(s, (ast.Pass, ast.Import, ast.ImportFrom, ast.Global, ast.Nonlocal)):
            return [Outcome(NORMAL, None, st)]
        if isinstance(s, ast.Assert):
            return [Outcome(NORMAL, None, st)]
        if isinstance(s, (ast.FunctionDef, ast.AsyncFunctionDef)):
            fd = st.frame.module.func_for_node(s)
            st.frame.env[s.name] = FuncVal(fd, closure=st.frame)
            return [Outcome(NORMAL, None, st)]
        if isinstance(s, ast.ClassDef):
            cd = st.frame.module.class_for_node(s)
            st.frame.env[s.name] = K(Ref(cd)) if cd else Sym('class')
            return [Outcome(NORMAL, None, st)]
        if isinstance(s, ast.Break):
            return [Outcome(BREAK, None, st)]
        if isinstance(s, ast.Continue):
            return [Outcome(CONTINUE, None, st)]
        if isinstance(s, ast.Delete):
            st.trace.append(Event('delete', [unparse(t) for t in s.targets], s, st.frame.func))
            return [Outcome(NORMAL, None, st)]
        raise AnalysisError('statement kind not understood: %s at %s:%d' % (
            type(s).__name__, st.frame.module.relpath, getattr(s, 'lineno', 0)))

    def _yield(self, v, st, node):
        st.trace.append(Event('yield', v, node, st.frame.func))
        return [Outcome(NORMAL, None, st)]

    def assign_target(self, t, v: AVal, st: State):
        if isinstance(t, ast.Name):
            st.frame.env[t.id] = v
        elif isinstance(t, ast.Attribute):
            base = self.ev_simple(t.value, st)
            if isinstance(base, Obj):
                st.heap[(base.oid, self.mangle(t.attr, st))] = v
                st.trace.append(Event('setattr', (base, t.attr, v), t, st.frame.func))
            else:
                st.trace.append(Event('setattr', (base, t.attr, v), t, st.frame.func))
        elif isinstance(t, (ast.Tuple, ast.List)):
            items = None
            if isinstance(v, ListVal) and len(v.items) == len(t.elts):
                items = v.items
            elif isinstance(v, K) and isinstance(v.v, (tuple, list)) and len(v.v) == len(t.elts):
                items = [wrap(x) for x in v.v]
            for i, e in enumerate(t.elts):
                if items is not None:
                    self.assign_target(e, items[i], st)
                else:
                    self.assign_target(e, Sym('unpack', origin=('index', v, i), node=e,
                                              cls=self._tuple_elem_cls(v, i)), st)
        elif isinstance(t, ast.Subscript):
            base = self.ev_simple(t.value, st)
            st.trace.append(Event('setitem', (base, v), t, st.frame.func))
        elif isinstance(t, ast.Starred):
            self.assign_target(t.value, Sym('starred'), st)

    def _tuple_elem_cls(self, v, i):
        ann = getattr(v, 'ret_annotation', None)
        if ann is not None:
            annnode, m, f = ann
            if isinstance(annnode, ast.Subscript) and (dotted_name(annnode.value) or '').split('.')[-1] in ('Tuple', 'tuple') \
                    and isinstance(annnode.slice, ast.Tuple) and i < len(annnode.slice.elts):
                return self.ix.annotation_class(m, f, annnode.slice.elts[i])
        return None

    def mangle(self, attr: str, st: State) -> str:
        if attr.startswith('__') and not attr.endswith('__'):
            f = st.frame.func
            c = None
            while f is not None and c is None:
                c = f.cls
                f = f.parent
            if c is not None:
                return '_' + c.name.lstrip('_') + attr
        return attr

    def exec_for(self, s, st: State) -> List[Outcome]:
        outs = []
        for kind, itv, s1 in self.ev(s.iter, st):
            if kind == 'raise':
                outs.append(Outcome(RAISE, itv, s1))
                continue
            if isinstance(itv, IterVal):
                outs.extend(self._unroll(s, itv.items[itv.taken(s1):], s1, itv))
                continue
            items = self.concrete_items(itv)
            if items is not None:
                outs.extend(self._unroll(s, items, s1))
            else:
                outs.extend(self._bounded_loop(s, itv, s1))
        return outs

    def concrete_items(self, v: AVal) -> Optional[List[AVal]]:
        if isinstance(v, ListVal):
            return v.items
        if isinstance(v, K) and isinstance(v.v, (tuple, list)):
            return [wrap(x) for x in v.v]
        if isinstance(v, K) and isinstance(v.v, frozenset):
            return [wrap(x) for x in sorted(v.v, key=repr)]
        return None

    def _unroll(self, s, items, st, iterator: Optional['IterVal'] = None) -> List[Outcome]:
        cur = [st]
        final = []
        for it in items:
            nxt = []
            for s1 in cur:
                if iterator is not None:
                    s1.heap[('iter', iterator.iid)] = K(iterator.taken(s1) + 1)
                self.assign_target(s.target, it, s1)
                for o in self.exec_block(s.body, s1):
                    if o.kind in (NORMAL, CONTINUE):
                        nxt.append(o.st)
                    elif o.kind == BREAK:
                        final.append(Outcome(NORMAL, None, o.st))
                    else:
                        final.append(o)
            cur = nxt
        for s1 in cur:
            final.extend(self.exec_block(s.orelse, s1) if s.orelse else [Outcome(NORMAL, None, s1)])
        return final

    def _bounded_loop(self, s, itv, st) -> List[Outcome]:
        """non-literal iterable: 0 .. loop_bound iterations with a symbolic element"""
        final = []
        cur = [st]
        elem_cls = itv.elem_cls if isinstance(itv, Sym) else None
        for i in range(self.hooks.loop_bound + 1):
            nxt = []
            for s1 in cur:
                # exit the loop here
                s_exit = s1.fork()
                self._count_path()
                s_exit.trace.append(Event('loop-exit', i, s, s_exit.frame.func))
                final.extend(self.exec_block(s.orelse, s_exit) if s.orelse else [Outcome(NORMAL, None, s_exit)])
                if i == self.hooks.loop_bound:
                    continue
                if getattr(self.hooks, 'iterators_are_consumed', False) and isinstance(itv, Sym) \
                        and ('exhausted', itv.id) in s1.heap:
                    continue   # the iterator has been handed to a consumer: nothing is left
                s1.trace.append(Event('loop-iter', i, s, s1.frame.func))
                self.assign_target(s.target, Sym('elem', cls=elem_cls, origin=('elem', itv, i), node=s.target), s1)
                for o in self.exec_block(s.body, s1):
                    if o.kind in (NORMAL, CONTINUE):
                        nxt.append(o.st)
                    elif o.kind == BREAK:
                        final.append(Outcome(NORMAL, None, o.st))
                    else:
                        final.append(o)
            cur = nxt
        return final

    def exec_while(self, s, st: State) -> List[Outcome]:
        final = []
        cur = [st]
        for i in range(self.hooks.loop_bound + 1):
            nxt = []
            for s0 in cur:
                raises = []
                conds = self._ev_cond(s.test, s0, raises)
                final.extend(Outcome(RAISE, v, s1) for v, s1 in raises)
                for truth, s1 in conds:
                    if not truth:
                        final.extend(self.exec_block(s.orelse, s1) if s.orelse else [Outcome(NORMAL, None, s1)])
                        continue
                    if i == self.hooks.loop_bound:
                        s1.truncated = True
                        continue
                    s1.trace.append(Event('loop-iter', i, s, s1.frame.func))
                    for o in self.exec_block(s.body, s1):
                        if o.kind in (NORMAL, CONTINUE):
                            nxt.append(o.st)
                        elif o.kind == BREAK:
                            final.append(Outcome(NORMAL, None, o.st))
                        else:
                            final.append(o)
            cur = nxt
        return final

    def exec_with(self, s, idx, st: State) -> List[Outcome]:
        if idx == len(s.items):
            return self.exec_block(s.body, st)
        item = s.items[idx]

        def enter(v, s2):
            s2.trace.append(Event('with-enter', v, item.context_expr, s2.frame.func))
            if item.optional_vars is not None:
                bound = self.hooks.with_value(self, v, item.context_expr, s2)
                if bound is None:
                    bound = Sym('with', origin=('with', v), node=item.context_expr,
                                cls=getattr(v, 'cls', None) if isinstance(v, Sym) else None)
                self.assign_target(item.optional_vars, bound, s2)
            outs = self.exec_with(s, idx + 1, s2)
            for o in outs:
                o.st.trace.append(Event('with-exit', (v, o.kind), item.context_expr, o.st.frame.func))
            return outs

        return self._from_ev(self.ev(item.context_expr, st), enter)

    def exec_try(self, s: ast.Try, st: State) -> List[Outcome]:
        body_outs = self.exec_block(s.body, st)
        after_handlers = []
        for o in body_outs:
            if o.kind == NORMAL and s.orelse:
                after_handlers.extend(self.exec_block(s.orelse, o.st))
            elif o.kind == RAISE:
                after_handlers.extend(self._dispatch_handlers(s, o.val, o.st))
            else:
                after_handlers.append(o)
        if not s.finalbody:
            return after_handlers
        res = []
        for o in after_handlers:
            for fo_ in self.exec_block(s.finalbody, o.st):
                if fo_.kind == NORMAL:
                    res.append(Outcome(o.kind, o.val, fo_.st))
                else:
                    res.append(fo_)
        return res

    def _dispatch_handlers(self, s: ast.Try, exc: Exc, st: State) -> List[Outcome]:
        for h in s.handlers:
            m = self.handler_matches(h, exc, st)
            if m is True:
                return self._run_handler(h, exc, st)
            if m is None:
                # undecidable match: fork
                s2 = st.fork()
                self._count_path()
                outs = self._run_handler(h, exc, s2)
                rest = ast.Try(body=[], handlers=s.handlers[s.handlers.index(h) + 1:], orelse=[], finalbody=[])
                outs.extend(self._dispatch_handlers(rest, exc, st))
                return outs
        return [Outcome(RAISE, exc, st)]

    def _run_handler(self, h, exc, st):
        prev = st.frame.cur_exc
        st.frame.cur_exc = exc
        if h.name:
            st.frame.env[h.name] = exc
        st.trace.append(Event('handler', (exc, h), h, st.frame.func))
        outs = self.exec_block(h.body, st)
        for o in outs:
            if o.st.frames:
                o.st.frame.cur_exc = prev
        return outs

    def handler_matches(self, h: ast.ExceptHandler, exc: Exc, st: State) -> Optional[bool]:
        if h.type is None:
            return True
        types = h.type.elts if isinstance(h.type, ast.Tuple) else [h.type]
        unknown = False
        for t in types:
            d = self.ix.resolve_static(st.frame.module, st.frame.func, t)
            r = self.exc_is_subclass(exc.cls, d)
            if r is True:
                return True
            if r is None:
                unknown = True
        return None if unknown else False

    def exc_is_subclass(self, c: Optional[Def], base: Optional[Def]) -> Optional[bool]:
        if c is None or base is None:
            return None
        if c == base:
            return True
        if isinstance(c, ClassDef):
            mro = self.ix.mro(c)
            if base in mro:
                return True
            # external bases
            for k in mro:
                if isinstance(k, External) and isinstance(base, External):
                    r = _builtin_issubclass(k.dotted, base.dotted)
                    if r:
                        return True
                if isinstance(k, External) and k.dotted.startswith('?'):
                    return None
            return False
        if isinstance(c, External) and isinstance(base, External):
            return _builtin_issubclass(c.dotted, base.dotted)
        if isinstance(c, External) and isinstance(base, ClassDef):
            return False
        return None

    def as_exc(self, v: AVal, node, st: State) -> Exc:
        if isinstance(v, Exc):
            return v
        if isinstance(v, K) and isinstance(v.v, Ref) and isinstance(v.v.d, (ClassDef, External)):
            return Exc(v.v.d, [], node)
        if isinstance(v, K) and isinstance(v.v, Record):
            return Exc(v.v.cls, [K(x) for x in v.v.args.values()], node)
        if isinstance(v, Sym) and v.cls is not None:
            e = Exc(v.cls, [], node)
            e.sym = v
            return e
        e = Exc(External('builtins.BaseException?'), [], node)
        e.sym = v
        return e

    # ------------------------------------------------------------ expressions
    def ev_simple(self, node, st: State) -> AVal:
        """evaluate an expression that must not fork (targets, receivers)"""
        res = self.ev(node, st)
        if len(res) != 1 or res[0][0] != 'val':
            raise AnalysisError('expression forks where a simple value is required: ' + unparse(node))
        return res[0][1]

    def ev_many(self, nodes, st: State):
        """-> list of ('val', [vals], st) | ('raise', exc, st)"""
        results = [('val', [], st)]
        for n in nodes:
            nxt = []
            for kind, vals, s in results:
                if kind == 'raise':
                    nxt.append((kind, vals, s))
                    continue
                target = n.value if isinstance(n, ast.Starred) else n
                for k2, v2, s2 in self.ev(target, s):
                    if k2 == 'raise':
                        nxt.append((k2, v2, s2))
                    else:
                        if isinstance(n, ast.Starred):
                            items = self.concrete_items(v2)
                            if items is not None:
                                nxt.append(('val', vals + list(items), s2))
                            else:
                                nxt.append(('val', vals + [Sym('starred', origin=('starred', v2))], s2))
                        else:
                            nxt.append(('val', vals + [v2], s2))
            results = nxt
        return results

    def ev(self, node, st: State) -> List[Tuple[str, AVal, State]]:
        if isinstance(node, ast.Constant):
            return [('val', K(node.value), st)]
        if isinstance(node, ast.Name):
            return [('val', self.lookup_name(node.id, st, node), st)]
        if isinstance(node, ast.Attribute):
            if isinstance(node.value, ast.Call) and isinstance(node.value.func, ast.Name) \
                    and node.value.func.id == 'super' and not node.value.args:
                d = self.ix.resolve_value(st.frame.module, st.frame.func, node)
                f = st.frame.func
                while f is not None and f.cls is None:
                    f = f.parent
                if isinstance(d, FuncDef) and f is not None and f.self_name:
                    recv = self.lookup_name(f.self_name, st)
                    return [('val', BoundMethod(recv, d), st)]
                if isinstance(d, External):
                    return [('val', K(Ref(d)), st)]
            out = []
            for kind, v, s in self.ev(node.value, st):
                if kind == 'raise':
                    out.append((kind, v, s))
                else:
                    out.extend(self.get_attr(v, node.attr, s, node))
            return out
        if isinstance(node, ast.Call):
            return self.ev_call(node, st)
        if isinstance(node, (ast.List, ast.Tuple)):
            out = []
            for kind, vals, s in self.ev_many(node.elts, st):
                if kind == 'raise':
                    out.append((kind, vals, s))
                else:
                    out.append(('val', ListVal(vals, isinstance(node, ast.Tuple)), s))
            return out
        if isinstance(node, ast.IfExp):
            out = []
            raises = []
            for truth, s in self._ev_cond(node.test, st, raises):
                out.extend(self.ev(node.body if truth else node.orelse, s))
            out.extend(('raise', v, s) for v, s in raises)
            return out
        if isinstance(node, ast.BoolOp):
            # value of `a or b` / `a and b` is one of the operands
            is_and = isinstance(node.op, ast.And)
            out = []
            pending = [(st, 0)]
            while pending:
                s0, i = pending.pop()
                for kind, v, s1 in self.ev(node.values[i], s0):
                    if kind == 'raise':
                        out.append((kind, v, s1))
                        continue
                    if i + 1 == len(node.values):
                        out.append(('val', v, s1))
                        continue
                    for truth, s2 in self.truthiness(v, s1, node.values[i]):
                        if truth != is_and:
                            # `or` with a true operand / `and` with a false operand: this operand is the value
                            cur = v
                            if isinstance(v, Sym):
                                # the refined copy lives in the state
                                cur = v.refined(truth=truth) if v.truth is None else v
                            out.append(('val', cur, s2))
                        else:
                            pending.append((s2, i + 1))
            return out
        if isinstance(node, ast.UnaryOp) and isinstance(node.op, ast.Not):
            return [('val', K(not t), s) for t, s in self.ev_cond(node.operand, st)]
        if isinstance(node, ast.Compare):
            return [('val', K(t), s) for t, s in self.ev_cond(node, st)]
        if isinstance(node, ast.Lambda):
            return [('val', FuncVal(None, closure=st.frame, lam=node, module=st.frame.module,
                                    owner_func=st.frame.func), st)]
        if isinstance(node, (ast.ListComp, ast.SetComp, ast.GeneratorExp, ast.DictComp)):
            return self.ev_comp(node, st)
        if isinstance(node, (ast.BinOp, ast.UnaryOp, ast.Subscript, ast.JoinedStr, ast.Dict, ast.Set,
                             ast.FormattedValue, ast.Starred, ast.Await, ast.Slice, ast.NamedExpr)):
            return self.ev_generic(node, st)
        if isinstance(node, (ast.Yield, ast.YieldFrom)):
            if node.value is None:
                return [('val', NONE, st)]
            out = []
            for kind, v, s in self.ev(node.value, st):
                if kind == 'val':
                    s.trace.append(Event('yield', v, node, s.frame.func))
                    out.append(('val', Sym('sent'), s))
                else:
                    out.append((kind, v, s))
            return out
        raise AnalysisError('expression kind not understood: %s at %s:%d' % (
            type(node).__name__, st.frame.module.relpath, getattr(node, 'lineno', 0)))

    def ev_generic(self, node, st: State):
        """evaluate children for their events; fold if all constant, else opaque with origin"""
        children = [c for c in ast.iter_child_nodes(node) if isinstance(c, ast.expr)]
        out = []
        for kind, vals, s in self.ev_many(children, st):
            if kind == 'raise':
                out.append((kind, vals, s))
                continue
            v = None
            if all(isinstance(x, K) for x in vals):
                env = {}
                fv = self.fo.fold(s.frame.module, s.frame.func, node, self._const_env(s))
                if not is_unknown(fv):
                    v = wrap(fv)
            if v is None and isinstance(node, ast.BinOp) and isinstance(node.op, ast.Add) and len(vals) == 2 \
                    and isinstance(vals[0], ListVal) and isinstance(vals[1], ListVal) \
                    and vals[0].is_tuple == vals[1].is_tuple:
                v = ListVal(vals[0].items + vals[1].items, vals[0].is_tuple)
            if v is None and isinstance(node, ast.BinOp) and isinstance(node.op, ast.Add) and len(vals) == 2 \
                    and any(isinstance(x, StrCat) for x in vals) and all(as_strcat(x) is not None for x in vals):
                v = StrCat([as_strcat(vals[0]), as_strcat(vals[1])])
            if v is None and isinstance(node, ast.BinOp) and isinstance(node.op, ast.Add) and len(vals) == 2 \
                    and getattr(self.hooks, 'symbolic_strings', False) \
                    and any((isinstance(x, K) and isinstance(x.v, str)) or isinstance(x, StrCat) for x in vals) \
                    and any(isinstance(x, Sym) for x in vals) \
                    and all(isinstance(x, (Sym, StrCat)) or (isinstance(x, K) and isinstance(x.v, str)) for x in vals):
                # opt-in: an unknown value concatenated with a constant string is a string
                v = StrCat([x if isinstance(x, (K, StrCat)) else x for x in vals])
            if v is None and isinstance(node, ast.Subscript) and len(vals) >= 1 and isinstance(vals[0], StrCat):
                v = self._strcat_subscript(node, vals[0], vals[1:])
            if v is None and isinstance(node, ast.JoinedStr) and any(isinstance(x, StrCat) for x in vals) \
                    and all(isinstance(ch, ast.Constant) or (isinstance(ch, ast.FormattedValue) and ch.conversion == -1
                                                             and ch.format_spec is None) for ch in node.values):
                v = self._joined_strcat(node, s)
            if v is None and isinstance(node, ast.Subscript) and len(vals) >= 2:
                base, idx = vals[0], vals[1]
                items = self.concrete_items(base)
                if items is not None and isinstance(idx, K) and isinstance(idx.v, int) and -len(items) <= idx.v < len(items):
                    v = items[idx.v]
                elif isinstance(base, ListVal) and isinstance(node.slice, ast.Slice) and node.slice.step is None \
                        and all(b is None or (isinstance(b, ast.Constant) and isinstance(b.value, int))
                                for b in (node.slice.lower, node.slice.upper)):
                    lo = node.slice.lower.value if node.slice.lower is not None else None
                    hi = node.slice.upper.value if node.slice.upper is not None else None
                    v = ListVal(base.items[lo:hi], base.is_tuple)
                elif isinstance(base, K) and isinstance(base.v, dict) and isinstance(idx, K):
                    try:
                        if idx.v in base.v:
                            v = wrap(base.v[idx.v])
                    except TypeError:
                        pass
                if v is None:
                    v = Sym('subscript', origin=('index', base, idx), node=node)
            if v is None:
                v = Sym(type(node).__name__.lower(), origin=('op', type(node).__name__, vals), node=node)
                if isinstance(node, ast.BinOp) and isinstance(node.op, ast.Div) \
                        and any(isinstance(x, K) and isinstance(x.v, str) for x in vals):
                    # `path / 'name'`: a pathlib join - the result is a path object (never None, always true)
                    v.truth, v.nullness = True, False
            out.append(('val', v, s))
        return out

    @staticmethod
    def _strcat_subscript(node: ast.Subscript, sc: 'StrCat', index_vals=()):
        """s[-1], s[0], s[:-1], s[1:] of a text that ends / starts with a known character; s[len(p):] / s[:len(p)]
        where the parts of p are the leading parts of s"""
        sl = node.slice

        def len_of_prefix(v):
            # v is the value of `len(<text whose parts are the first parts of sc>)`: the number of those parts
            if isinstance(v, Sym) and v.origin and v.origin[0] == 'op' and v.origin[1] == 'Slice' and len(v.origin[2]) == 1:
                v = v.origin[2][0]
            if isinstance(v, Sym) and v.origin and v.origin[0] == 'call' and str(v.origin[1]).endswith('len') \
                    and len(v.origin[2]) == 1:
                a = v.origin[2][0]
                parts = a.parts if isinstance(a, StrCat) else ([] if isinstance(a, K) and a.v == '' else None)
                if parts is not None and len(parts) <= len(sc.parts) and all(x is y for x, y in zip(parts, sc.parts)):
                    return len(parts)
            return None

        if isinstance(sl, ast.Slice) and sl.step is None and len(index_vals) == 1 \
                and (sl.lower is None) != (sl.upper is None):
            k = len_of_prefix(index_vals[0])
            if k is not None:
                rest = sc.parts[k:] if sl.upper is None else sc.parts[:k]
                return StrCat(list(rest)) if rest else K('')

        def const_int(n):
            if isinstance(n, ast.Constant) and isinstance(n.value, int):
                return n.value
            if isinstance(n, ast.UnaryOp) and isinstance(n.op, ast.USub) and isinstance(n.operand, ast.Constant) \
                    and isinstance(n.operand.value, int):
                return -n.operand.value
            return None

        if not sc.parts:
            return None
        first, last = sc.parts[0], sc.parts[-1]
        if not isinstance(sl, ast.Slice):
            i = const_int(sl)
            if i == -1 and isinstance(last, K):
                return K(last.v[-1])
            if i == 0 and isinstance(first, K):
                return K(first.v[0])
            return None
        if sl.step is not None:
            return None
        lo = const_int(sl.lower) if sl.lower is not None else None
        hi = const_int(sl.upper) if sl.upper is not None else None
        if sl.lower is None and hi == -1 and isinstance(last, K):
            return StrCat(sc.parts[:-1] + [K(last.v[:-1])])
        if sl.upper is None and lo == 1 and isinstance(first, K):
            return StrCat([K(first.v[1:])] + sc.parts[1:])
        return None

    def _joined_strcat(self, node: ast.JoinedStr, st: State):
        """f'..{x}..' whose placeholders are plain (no conversion / format spec) and symbolic strings"""
        parts = []
        for ch in node.values:
            if isinstance(ch, ast.Constant):
                parts.append(K(ch.value))
            else:
                rs = self.ev(ch.value, st.fork())
                if len(rs) != 1 or rs[0][0] != 'val' or as_strcat(rs[0][1]) is None:
                    return None
                parts.append(as_strcat(rs[0][1]))
        return StrCat(parts)

    def _const_env(self, st: State) -> dict:
        env = {}
        f = st.frame
        while f is not None:
            for k, v in f.env.items():
                if k not in env and isinstance(v, K):
                    env[k] = v.v
                elif k not in env:
                    env[k] = Unknown('abstract value')
            f = f.closure
        return env

    def ev_comp(self, node, st: State):
        gens = node.generators
        if len(gens) == 1 and not isinstance(node, ast.DictComp):
            g = gens[0]
            out = []
            for kind, itv, s in self.ev(g.iter, st):
                if kind == 'raise':
                    out.append((kind, itv, s))
                    continue
                items = self.concrete_items(itv)
                if items is not None and len(items) <= (16 if not g.ifs else 4):
                    # map (and filter) over a literal sequence
                    results = [('val', [], s)]
                    for it in items:
                        nxt = []
                        for k1, vals, s1 in results:
                            if k1 == 'raise':
                                nxt.append((k1, vals, s1))
                                continue
                            saved = self._save_targets(g.target, s1)
                            self.assign_target(g.target, it, s1)
                            kept = [s1]
                            for cond in g.ifs:
                                k_nxt = []
                                for s_k in kept:
                                    for truth, s_c in self.ev_cond(cond, s_k):
                                        if truth:
                                            k_nxt.append(s_c)
                                        else:
                                            nxt.append(('val', vals, s_c))
                                kept = k_nxt
                            for s_k in kept:
                                for k2, v2, s2 in self.ev(node.elt, s_k):
                                    if k2 == 'raise':
                                        nxt.append((k2, v2, s2))
                                    else:
                                        nxt.append(('val', vals + [v2], s2))
                        results = nxt
                    for k1, vals, s1 in results:
                        if k1 == 'raise':
                            out.append((k1, vals, s1))
                        else:
                            out.append(('val', ListVal(vals), s1))
                    continue
                # symbolic: evaluate the element once for its events
                elem_cls = itv.elem_cls if isinstance(itv, Sym) else None
                s.trace.append(Event('comp-enter', itv, node, s.frame.func))
                self.assign_target(g.target, Sym('elem', cls=elem_cls, origin=('elem', itv, 0), node=g.target), s)
                states = [s]
                for cond in g.ifs:
                    nxt = []
                    for s1 in states:
                        for k2, v2, s2 in self.ev(cond, s1):
                            if k2 == 'raise':
                                out.append((k2, v2, s2))
                            else:
                                nxt.append(s2)
                    states = nxt
                for s1 in states:
                    for k2, v2, s2 in self.ev(node.elt, s1):
                        if k2 == 'raise':
                            out.append((k2, v2, s2))
                        else:
                            s2.trace.append(Event('comp-exit', itv, node, s2.frame.func))
                            r = Sym('comp', origin=('comp', itv, v2), node=node)
                            out.append(('val', r, s2))
            return out
        # general case: opaque, evaluate iterables only
        out = []
        for kind, vals, s in self.ev_many([g.iter for g in gens[:1]], st):
            if kind == 'raise':
                out.append((kind, vals, s))
            else:
                out.append(('val', Sym('comp', origin=('comp', vals[0], None), node=node), s))
        return out

    def _save_targets(self, t, st):
        return None

    # ---- names
    def lookup_name(self, name: str, st: State, node=None) -> AVal:
        f = st.frame
        while f is not None:
            if name in f.env:
                return f.env[name]
            f = f.closure
        fr = st.frame
        # names bound later in the function (not yet assigned on this path) or module level
        d = self.ix.resolve_name(fr.module, fr.func, name)
        return self.value_of_def(d, name, st)

    def value_of_def(self, d: Optional[Def], name: str, st: State) -> AVal:
        if d is None:
            return Sym('unresolved:' + name)
        if isinstance(d, FuncDef):
            return FuncVal(d)
        if isinstance(d, ClassDef):
            return K(Ref(d))
        if isinstance(d, (ModuleRef, External)):
            return K(Ref(d))
        if isinstance(d, VarDef):
            v = self.fo.fold_var(d)
            if is_unknown(v):
                cls = self.ix._type_of_def(d, 0)
                return Sym('global:' + d.key, cls=cls, origin=('global', d.key))
            return K(v)
        if isinstance(d, ParamDef):
            return Sym('param:' + d.name, cls=self.ix.annotation_class(d.func.module, d.func.parent, d.arg.annotation),
                       origin=('param', d.name, d.func.key))
        if isinstance(d, LocalDef):
            return Sym('local:' + d.name, origin=('local', d.name))
        return Sym('def:' + name)

    # ---- attributes
    def get_attr(self, v: AVal, attr: str, st: State, node=None):
        if isinstance(v, Obj):
            key = (v.oid, self.mangle(attr, st))
            if key in st.heap:
                return [('val', st.heap[key], st)]
            if (v.oid, attr) in st.heap:
                return [('val', st.heap[(v.oid, attr)], st)]
            mem = self.ix.class_member(v.cls, attr)
            if mem is None and attr.startswith('__') and not attr.endswith('__'):
                mem = None
            if isinstance(mem, FuncDef):
                if mem.is_property:
                    if self.hooks.inline(mem, st):
                        env = self.param_syms(mem, {mem.self_name: v})
                        return self.call_function(mem, env, st, None)
                    return [('val', self.sym_for_return(mem, ('attr', v, attr), node), st)]
                if mem.is_static:
                    return [('val', FuncVal(mem), st)]
                return [('val', BoundMethod(v, mem), st)]
            if isinstance(mem, VarDef):
                fv = self.fo.fold(mem.module, None, mem.value, None, 0, cls_ctx=mem.owner)
                if not is_unknown(fv):
                    return [('val', K(fv), st)]
            # attribute never assigned on this path: typed opaque
            cls = self.ix.attr_type(v.cls, attr)
            s = Sym('attr:' + attr, cls=cls, origin=('attr', v, attr), node=node)
            st.heap[key] = s
            return [('val', s, st)]
        if isinstance(v, K):
            if v.v is None:
                st.trace.append(Event('none-deref', attr, node, st.frame.func))
                return [('val', Sym('attr-of-none:' + attr, origin=('attr', v, attr), node=node), st)]
            if isinstance(v.v, Ref) and isinstance(v.v.d, ClassDef):
                mem = self.ix.class_member(v.v.d, attr)
                if isinstance(mem, FuncDef):
                    if mem.is_classmethod:
                        return [('val', BoundMethod(v, mem), st)]
                    return [('val', FuncVal(mem), st)]
            fv = self.fo.attr_of_value(v.v, attr)
            if isinstance(fv, AVal):
                return [('val', fv, st)]
            if not is_unknown(fv):
                if isinstance(fv, Ref) and isinstance(fv.d, FuncDef):
                    if fv.bound_self is not None:
                        return [('val', BoundMethod(v, fv.d), st)]
                    return [('val', FuncVal(fv.d), st)]
                return [('val', K(fv), st)]
            if isinstance(v.v, Record):
                mem = self.ix.class_member(v.v.cls, attr)
                if isinstance(mem, FuncDef) and not mem.is_property:
                    return [('val', BoundMethod(v, mem), st)]
                if isinstance(mem, FuncDef) and mem.is_property and not util_is_abstract(mem) and self.depth < 12:
                    # property of a constant record: evaluate its (small) body on the record
                    env = self.param_syms(mem, {mem.self_name: v})
                    return self.call_function(mem, env, st, None)
                cls = self.ix.attr_type(v.v.cls, attr)
                return [('val', Sym('attr:' + attr, cls=cls, origin=('attr', v, attr), node=node), st)]
            if isinstance(v.v, Ref) and isinstance(v.v.d, (External, ModuleRef)):
                d = self.ix.member_of(v.v.d, attr)
                if d is not None:
                    return [('val', self.value_of_def(d, attr, st), st)]
            return [('val', Sym('attr:' + attr, origin=('attr', v, attr), node=node), st)]
        if isinstance(v, Exc):
            # attribute of an exception instance: from constructor args when the class stores them
            val = self.exc_attr(v, attr, st, node)
            return [('val', val, st)]
        if isinstance(v, Sym):
            stable = getattr(self.hooks, 'stable_attributes', False)
            skey = ('symattr', id(getattr(v, 'root', v)), attr)
            if stable and skey in st.heap:
                # opt-in: a data attribute / property of an unknown object reads the same on one path (what a test
                # has found out about it holds for the later tests of the same attribute)
                return [('val', st.heap[skey], st)]

            def remember(val):
                if stable and isinstance(val, Sym):
                    st.heap[skey] = val
                return [('val', val, st)]

            if isinstance(v.cls, ClassDef):
                mem = self.ix.class_member(v.cls, attr)
                if isinstance(mem, FuncDef):
                    if mem.is_property:
                        return remember(self.sym_for_return(mem, ('attr', v, attr), node))
                    if mem.is_static:
                        return [('val', FuncVal(mem), st)]
                    return [('val', BoundMethod(v, mem), st)]
                cls = self.ix.attr_type(v.cls, attr)
                return remember(Sym('attr:' + attr, cls=cls, origin=('attr', v, attr), node=node))
            return remember(Sym('attr:' + attr, origin=('attr', v, attr), node=node))
        if isinstance(v, (ListVal, FuncVal, BoundMethod)):
            return [('val', Sym('attr:' + attr, origin=('attr', v, attr), node=node), st)]
        return [('val', Sym('attr:' + attr, origin=('attr', v, attr), node=node), st)]

    def exc_attr(self, e: Exc, attr: str, st, node):
        if isinstance(e.cls, ClassDef):
            mem = self.ix.class_member(e.cls, attr)
            target_attr = attr
            if isinstance(mem, FuncDef) and mem.is_property:
                # property returning self._x
                from .fold import single_return_expr
                r = single_return_expr(mem)
                if isinstance(r, ast.Attribute) and isinstance(r.value, ast.Name) and r.value.id == mem.self_name:
                    target_attr = r.attr
                    cls_for_mangle = mem.cls
                else:
                    return self.sym_for_return(mem, ('attr', e, attr), node)
            for meth, val, stmt in self.ix.self_attr_assignments(e.cls, target_attr):
                if meth.name == '__init__' and isinstance(val, ast.Name):
                    pos = [p.arg for p in meth.positional_params()[1:]]
                    if val.id in pos:
                        i = pos.index(val.id)
                        if i < len(e.args):
                            return e.args[i]
        return Sym('attr:' + attr, origin=('attr', e, attr), node=node)

    def sym_for_return(self, fd: FuncDef, origin, node) -> Sym:
        cls = self.ix.annotation_class(fd.module, fd.parent, fd.node.returns)
        elem = self.ix.annotation_elem_class(fd.module, fd.parent, fd.node.returns)
        s = Sym('ret:' + fd.name, cls=cls, origin=origin, node=node, elem_cls=elem)
        if self._constructs_its_result(fd):
            s.nullness = False
        if fd.node.returns is not None:
            s.ret_annotation = (fd.node.returns, fd.module, fd.parent)
        return s

    def _constructs_its_result(self, fd: FuncDef) -> bool:
        """every exit of the function returns a freshly constructed object of a repository class (never None)"""
        cache = self.__dict__.setdefault('_ctor_result_cache', {})
        if fd in cache:
            return cache[fd]
        ok = not fd.is_generator and bool(fd.node.body) and isinstance(fd.node.body[-1], (ast.Return, ast.Raise))
        if ok:
            for n in walk_own(fd.node):
                if isinstance(n, ast.Return):
                    v = n.value
                    if isinstance(v, ast.Name):
                        bs = fd.local_bindings().get(v.id, [])
                        if len(bs) == 1 and bs[0][0] == 'assign' and bs[0][1] is not None:
                            v = bs[0][1]
                    if not isinstance(v, ast.Call) or not isinstance(self.ix.callee(fd.module, fd, v), ClassDef):
                        ok = False
                        break
        cache[fd] = ok
        return ok

    # ---- calls
    def ev_call(self, node: ast.Call, st: State):
        out = []
        for kind, cv, s in self.ev(node.func, st):
            if kind == 'raise':
                out.append((kind, cv, s))
                continue
            for k2, argvals, s2 in self.ev_many(node.args, s):
                if k2 == 'raise':
                    out.append((k2, argvals, s2))
                    continue
                kwnodes = [kw.value for kw in node.keywords]
                for k3, kwvals, s3 in self.ev_many(kwnodes, s2):
                    if k3 == 'raise':
                        out.append((k3, kwvals, s3))
                        continue
                    kwargs = {}
                    for kw, v in zip(node.keywords, kwvals):
                        kwargs[kw.arg if kw.arg else '**'] = v
                    out.extend(self.apply(node, cv, argvals, kwargs, s3))
        return out

    def callee_def(self, cv: AVal, node: ast.Call, st: State) -> Optional[Def]:
        if isinstance(cv, FuncVal):
            return cv.fd
        if isinstance(cv, BoundMethod):
            return cv.fd
        if isinstance(cv, K) and isinstance(cv.v, Ref):
            return cv.v.d
        d = self.ix.callee(st.frame.module, st.frame.func, node)
        if isinstance(d, (ParamDef, LocalDef)):
            return None
        return d

    def apply(self, node: ast.Call, cv: AVal, args: List[AVal], kwargs: Dict[str, AVal], st: State):
        cdef = self.callee_def(cv, node, st)
        over = self.hooks.on_call(self, node, cv, cdef, args, kwargs, st)
        if over is not None:
            return over
        seq = self._sequence_builtin(node, cv, cdef, args, kwargs, st)
        if seq is not None:
            return seq
        # ---- inlining
        if isinstance(cv, FuncVal) and cv.lam is not None:
            env = {}
            a = cv.lam.args
            names = [p.arg for p in a.args]
            for n, v in zip(names, args):
                env[n] = v
            for n in names[len(args):]:
                env[n] = kwargs.get(n, Sym('param:' + n))
            fr = Frame(cv.owner_func, cv.module, env, self._remap_closure(cv.closure, st))
            st.frames.append(fr)
            res = self.ev(cv.lam.body, st)
            for _, _, s in res:
                s.frames.pop()
            return res
        fd = cdef if isinstance(cdef, FuncDef) else None
        if fd is not None and not fd.is_generator and self.hooks.inline(fd, st):
            recv = None
            if isinstance(cv, BoundMethod):
                recv = cv.recv
            env = self.bind(fd, recv, args, kwargs, node)
            if env is not None:
                closure = self._remap_closure(cv.closure, st) if isinstance(cv, FuncVal) else None
                return self.call_function(fd, env, st, closure)
        # ---- class instantiation of in-scope classes / exceptions
        if isinstance(cdef, ClassDef):
            if self.hooks.inline_class(cdef, st) and isinstance(self.ix.class_member(cdef, '__init__'), FuncDef):
                init = self.ix.class_member(cdef, '__init__')
                obj = self.new_obj(cdef)
                env = self.bind(init, obj, args, kwargs, node)
                if env is not None:
                    res = []
                    for kind, v, s2 in self.call_function(init, env, st, None):
                        res.append(('val', obj, s2) if kind == 'val' else (kind, v, s2))
                    return res
            if self.is_exception_class(cdef):
                return [('val', Exc(cdef, args, node), st)]
            if tuple_record_elements(self.ix, cdef) is not None:
                # tuple record: a constant structure whose fields may be abstract values
                ctor = self.ix.class_member(cdef, '__new__')
                env = self.bind(ctor, K(Ref(cdef)), args, kwargs, node) if isinstance(ctor, FuncDef) else None
                if env is not None and '**' not in kwargs:
                    recargs = {p.arg: unwrap(env[p.arg]) for p in ctor.params[1:] if p.arg in env}
                    if self.hooks.record_call(cdef, node):
                        st.trace.append(Event('call', {'callee': cdef, 'args': args, 'kwargs': kwargs, 'recv': None,
                                                       'callee_val': cv}, node, st.frame.func))
                    return [('val', K(Record(cdef, recargs, node)), st)]
            if self.fo.is_enum(cdef) and len(args) == 1:
                a0 = args[0]
                if isinstance(a0, K):
                    m = self.fo.enum_by_value(cdef, a0.v)
                    if not is_unknown(m):
                        return [('val', K(m), st)]
                st.trace.append(Event('enum-conv', (cdef, a0), node, st.frame.func))
                return [('val', Sym('enum-conv', cls=cdef, origin=('enum-conv', cdef, a0), node=node, nullness=False), st)]
        if isinstance(cdef, External) and self.is_external_exception(cdef):
            return [('val', Exc(cdef, args, node), st)]
        # ---- opaque call
        if getattr(self.hooks, 'iterators_are_consumed', False):
            callee_name = node.func.attr if isinstance(node.func, ast.Attribute) else (
                node.func.id if isinstance(node.func, ast.Name) else '')
            if callee_name in ITERATOR_CONSUMERS:
                for a in args:
                    if isinstance(a, Sym) and getattr(a, 'is_iterator', False):
                        st.heap[('exhausted', a.id)] = K(True)
        ev_idx = None
        if self.hooks.record_call(cdef, node):
            st.trace.append(Event('call', {'callee': cdef, 'args': args, 'kwargs': kwargs, 'recv': getattr(cv, 'recv', None),
                                           'callee_val': cv}, node, st.frame.func))
            ev_idx = len(st.trace) - 1
        results = []
        raises = self.hooks.may_raise(cdef, node, st)
        for ec in raises:
            s2 = st.fork()
            self._count_path()
            e = self.hooks.make_exc(self, ec, node, ev_idx, s2)
            s2.trace.append(Event('raised', (ec, ev_idx), node, s2.frame.func))
            results.append(('raise', e, s2))
        rv = self.hooks.opaque_result(self, cdef, node, args, kwargs, st)
        if rv is None:
            rv = self.default_result(cdef, cv, node, args, kwargs, st, ev_idx)
            if getattr(self.hooks, 'iterators_are_consumed', False) and isinstance(cdef, External) \
                    and cdef.dotted == 'builtins.iter' and isinstance(rv, Sym):
                rv.is_iterator = True
        results.append(('val', rv, st))
        return results

    def _sequence_builtin(self, node, cv, cdef, args, kwargs, st):
        """len / tuple / list of a literal sequence and list.append on one: computed, so that the order of a
        sequence that is built and consumed in the analysed code is known, not guessed"""
        if kwargs:
            return None
        if isinstance(cdef, External) and cdef.dotted == 'builtins.enumerate' and 1 <= len(args) <= 2:
            items = self.concrete_items(args[0])
            start = args[1] if len(args) == 2 else K(0)
            if items is not None and not isinstance(args[0], K) and isinstance(start, K) and isinstance(start.v, int):
                return [('val', ListVal([ListVal([K(start.v + i), x], True) for i, x in enumerate(items)]), st)]
            return None
        if isinstance(cdef, External) and cdef.dotted in ('builtins.len', 'builtins.tuple', 'builtins.list'):
            name = cdef.dotted.split('.')[1]
            if name != 'len' and not args:
                return [('val', ListVal([], name == 'tuple'), st)]
            if len(args) != 1:
                return None
            items = self.concrete_items(args[0])
            if items is None or (isinstance(args[0], K) and isinstance(args[0].v, frozenset)):
                return None
            if name == 'len':
                return [('val', K(len(items)), st)]
            return [('val', ListVal(list(items), name == 'tuple'), st)]
        if isinstance(cv, Sym) and cv.origin and cv.origin[0] == 'attr' and isinstance(cv.origin[1], StrCat) \
                and cv.origin[2] in ('isspace', 'lstrip', 'rstrip', 'strip'):
            r = self._strcat_method(cv.origin[1], cv.origin[2], args, node, st)
            if r is not None:
                return r
        if isinstance(cv, Sym) and cv.origin and cv.origin[0] == 'attr' and isinstance(cv.origin[1], StrCat) \
                and cv.origin[2] in ('endswith', 'startswith') and len(args) == 1 and isinstance(args[0], K) \
                and isinstance(args[0].v, str) and cv.origin[1].parts:
            sc_ = cv.origin[1]
            end = cv.origin[2] == 'endswith'
            t = sc_.parts[-1] if end else sc_.parts[0]
            if isinstance(t, K) and len(t.v) >= len(args[0].v):
                return [('val', K(t.v.endswith(args[0].v) if end else t.v.startswith(args[0].v)), st)]
        # '<sep>'.join(<literal sequence of symbolic strings>)
        sep = None
        if isinstance(cv, K) and type(cv.v).__name__ == '_BoundPy' and cv.v.attr == 'join' and isinstance(cv.v.base, str):
            sep = cv.v.base
        elif isinstance(cv, K) and callable(cv.v) and isinstance(getattr(cv.v, '__self__', None), str) \
                and getattr(cv.v, '__name__', None) == 'join':
            sep = cv.v.__self__
        elif isinstance(cv, Sym) and cv.origin and cv.origin[0] == 'attr' and isinstance(cv.origin[1], K) \
                and isinstance(cv.origin[1].v, str) and cv.origin[2] == 'join':
            sep = cv.origin[1].v
        if sep is not None and len(args) == 1:
            items = self.concrete_items(args[0])
            if items is not None and not isinstance(args[0], K) and all(as_strcat(x) is not None for x in items):
                if not any(isinstance(x, StrCat) for x in items):
                    return [('val', K(sep.join(x.v for x in items)), st)]
                parts = []
                for i, x in enumerate(items):
                    if i:
                        parts.append(K(sep))
                    parts.append(as_strcat(x))
                return [('val', StrCat(parts), st)]
        if isinstance(cv, K) and type(cv.v).__name__ == '_BoundPy' and all(isinstance(a, K) for a in args):
            # a method of a constant (str / dict / set) with constant arguments, evaluated by the folder
            r = cv.v.call([a.v for a in args], {})
            if not is_unknown(r):
                return [('val', wrap(r), st)]
            return None
        if isinstance(cv, K) and callable(cv.v) and isinstance(getattr(cv.v, '__self__', None), str) \
                and getattr(cv.v, '__name__', None) in _PURE_STR_METHODS \
                and all(isinstance(a, K) and isinstance(a.v, (str, int, tuple)) for a in args):
            try:
                return [('val', wrap(cv.v(*[a.v for a in args])), st)]
            except Exception:
                return None
        if isinstance(cv, Sym) and cv.origin and cv.origin[0] == 'attr' and isinstance(cv.origin[1], K) \
                and isinstance(cv.origin[1].v, str) and cv.origin[2] in _PURE_STR_METHODS \
                and all(isinstance(a, K) and isinstance(a.v, (str, int, tuple)) for a in args):
            # a pure method of a constant string with constant arguments: computed
            try:
                return [('val', wrap(getattr(cv.origin[1].v, cv.origin[2])(*[a.v for a in args])), st)]
            except Exception:
                return None
        if isinstance(cv, Sym) and cv.origin and cv.origin[0] == 'attr' and isinstance(cv.origin[1], ListVal) \
                and not cv.origin[1].is_tuple:
            old = cv.origin[1]
            meth = cv.origin[2]
            new_items = None
            if meth == 'append' and len(args) == 1:
                new_items = old.items + [args[0]]
            elif meth == 'extend' and len(args) == 1:
                more = self.concrete_items(args[0])
                if more is not None and not isinstance(args[0], K):
                    new_items = old.items + list(more)
            if new_items is not None:
                if self.hooks.record_call(cdef, node):
                    st.trace.append(Event('call', {'callee': cdef, 'args': args, 'kwargs': kwargs, 'recv': old,
                                                   'callee_val': cv}, node, st.frame.func))
                st.replace_value(old, ListVal(new_items))
                return [('val', NONE, st)]
            if meth in ('append', 'extend', 'insert', 'remove', 'pop', 'sort', 'reverse', 'clear'):
                # a mutation that is not modelled: the contents are no longer known
                st.replace_value(old, Sym('mutated-list', origin=('mutated', old, meth), node=node))
        return None

    def _remap_closure(self, closure: Optional[Frame], st: State) -> Optional[Frame]:
        if closure is None:
            return None
        # after forks, frames were copied: find the frame in the current stack with the same function
        for f in reversed(st.frames):
            if f is closure:
                return f
        for f in reversed(st.frames):
            if f.func is closure.func and f.func is not None:
                return f
        return closure

    def default_result(self, cdef, cv, node, args, kwargs, st, ev_idx) -> AVal:
        origin = ('call', cdef.key if cdef is not None else unparse(node.func), args, kwargs, node, ev_idx)
        if isinstance(cdef, ClassDef):
            return Sym('new:' + cdef.name, cls=cdef, origin=origin, node=node, nullness=False)
        if isinstance(cdef, FuncDef):
            if cdef.is_generator:
                return Sym('generator:' + cdef.name, origin=origin, node=node, nullness=False)
            s = self.sym_for_return(cdef, origin, node)
            return s
        return Sym('call', origin=origin, node=node)

    def bind(self, fd: FuncDef, recv: Optional[AVal], args: List[AVal], kwargs: Dict[str, AVal], node) -> Optional[dict]:
        pos = fd.positional_params()
        env = {}
        if fd.cls is not None and not fd.is_static:
            if recv is None:
                # unbound call  Class.method(obj, ...)
                if not args:
                    return None
                recv, args = args[0], args[1:]
            env[pos[0].arg] = recv
            pos = pos[1:]
        names = [p.arg for p in pos]
        extra = []
        for i, v in enumerate(args):
            if i < len(names):
                env[names[i]] = v
            else:
                extra.append(v)
        a = fd.node.args
        if a.vararg is not None:
            env[a.vararg.arg] = ListVal(extra, True)
        elif extra:
            return None
        kwextra = {}
        allnames = {p.arg for p in fd.params}
        for k, v in kwargs.items():
            if k in allnames:
                env[k] = v
            else:
                kwextra[k] = v
        if a.kwarg is not None:
            env[a.kwarg.arg] = Sym('kwargs')
        # defaults
        allpos = fd.positional_params()
        for p, d in zip(allpos[len(allpos) - len(a.defaults):], a.defaults):
            if p.arg not in env:
                fv = self.fo.fold(fd.module, fd.parent, d)
                env[p.arg] = K(fv) if not is_unknown(fv) else Sym('default:' + p.arg)
        for p, d in zip(a.kwonlyargs, a.kw_defaults):
            if p.arg not in env and d is not None:
                fv = self.fo.fold(fd.module, fd.parent, d)
                env[p.arg] = K(fv) if not is_unknown(fv) else Sym('default:' + p.arg)
        for p in fd.params:
            if p.arg not in env:
                env[p.arg] = self.sym_for_param(fd, p)
        return env

    def is_exception_class(self, c: ClassDef) -> bool:
        for k in self.ix.mro(c):
            if isinstance(k, External) and self.is_external_exception(k):
                return True
        return False

    @staticmethod
    def is_external_exception(d: External) -> bool:
        name = d.dotted
        if name.startswith('builtins.'):
            obj = getattr(_py_builtins, name.split('.', 1)[1], None)
            return isinstance(obj, type) and issubclass(obj, BaseException)
        return name in ('subprocess.TimeoutExpired', 'subprocess.SubprocessError', 're.error', 'shlex.ValueError')

    # ------------------------------------------------------------ conditions (E7)
    def ev_cond(self, test, st: State) -> List[Tuple[bool, State]]:
        """-> [(truth, state)]; decides when the facts allow, forks otherwise"""
        return self._ev_cond(test, st, None)

    def _ev_cond(self, test, st: State, raises: Optional[list]) -> List[Tuple[bool, State]]:
        """raises: collects (exception, state) of evaluations that raise; None = not supported by the caller"""
        if isinstance(test, ast.UnaryOp) and isinstance(test.op, ast.Not):
            return [(not t, s) for t, s in self._ev_cond(test.operand, st, raises)]
        if isinstance(test, ast.BoolOp):
            is_and = isinstance(test.op, ast.And)
            results = []
            pending = [(st, 0)]
            while pending:
                s, i = pending.pop()
                for t, s2 in self._ev_cond(test.values[i], s, raises):
                    if (is_and and not t) or (not is_and and t):
                        results.append((t, s2))
                    elif i + 1 == len(test.values):
                        results.append((t, s2))
                    else:
                        pending.append((s2, i + 1))
            return results
        if isinstance(test, ast.Compare) and len(test.ops) == 1:
            op = test.ops[0]
            out = []
            for kind, vals, s in self.ev_many([test.left, test.comparators[0]], st):
                if kind == 'raise':
                    if raises is None:
                        raise AnalysisError('exception inside a condition: ' + unparse(test))
                    raises.append((vals, s))
                    continue
                l, r = vals
                out.extend(self.compare(op, l, r, s, test))
            return out
        if isinstance(test, ast.Call) and isinstance(test.func, ast.Name) and test.func.id == 'isinstance' \
                and len(test.args) == 2:
            out = []
            for kind, v, s in self.ev(test.args[0], st):
                if kind == 'raise':
                    if raises is None:
                        raise AnalysisError('exception inside a condition: ' + unparse(test))
                    raises.append((v, s))
                    continue
                out.extend(self.isinstance_test(v, test.args[1], s, test))
            return out
        # truthiness of a value
        out = []
        for kind, v, s in self.ev(test, st):
            if kind == 'raise':
                if raises is None:
                    raise AnalysisError('exception inside a condition: ' + unparse(test))
                raises.append((v, s))
                continue
            out.extend(self.truthiness(v, s, test))
        return out

    def _fork2(self, st: State, test, refine_true: Callable[[State], None] = None,
               refine_false: Callable[[State], None] = None):
        s_true = st
        s_false = st.fork()
        self._count_path()
        if refine_true:
            refine_true(s_true)
        if refine_false:
            refine_false(s_false)
        s_true.guards.append((test, True))
        s_false.guards.append((test, False))
        s_true.trace.append(Event('guard', (test, True), test, s_true.frame.func))
        s_false.trace.append(Event('guard', (test, False), test, s_false.frame.func))
        return [(True, s_true), (False, s_false)]

    def truthiness(self, v: AVal, st: State, test):
        if getattr(self.hooks, 'record_truth_tests', False):
            st.trace.append(Event('truth-test', (v, test), test, st.frame.func))
        if isinstance(v, K):
            val = v.v
            if isinstance(val, (Record, EnumMember, Ref)):
                return [(True, st)]
            try:
                return [(bool(val), st)]
            except Exception:
                pass
        if isinstance(v, (Obj, Exc, FuncVal, BoundMethod)):
            return [(True, st)]
        if isinstance(v, ListVal):
            return [(bool(v.items), st)]
        if isinstance(v, StrCat):
            return self._strcat_nonempty(v, st, test)
        if isinstance(v, Sym):
            if v.truth is not None:
                return [(v.truth, st)]
            if v.nullness is True:
                return [(False, st)]

            def rt(s):
                s.replace_value(v, v.refined(truth=True, nullness=False))

            def rf(s):
                s.replace_value(v, v.refined(truth=False))

            return self._fork2(st, test, rt, rf)
        return self._fork2(st, test)

    # ---- white space of symbolic strings: a symbol is *blank* (empty or white space only) or not
    @staticmethod
    def _blank_facts(st: State) -> dict:
        out = {}
        for e in st.trace:
            if e.kind == 'str-blank':
                for x in e.data:
                    out[id(x)] = True
            elif e.kind == 'str-nonblank':
                for x in e.data:
                    out[id(x)] = False
            elif e.kind == 'str-empty':
                for x in e.data:
                    out[id(x)] = True
        return out

    def _stripped(self, sym, op: str) -> 'Sym':
        """the symbol for <op>(sym) of a symbol that is not blank: not blank and not empty either; one symbol per
        (symbol, set of ends stripped)"""
        base = getattr(sym, 'strip_base', sym)
        ends = frozenset(getattr(sym, 'strip_ends', frozenset()) | {op})
        cache = self.__dict__.setdefault('_stripped_syms', {})
        key = (id(base), ends)
        if key not in cache:
            d = Sym('%s(%s)' % ('strip' if len(ends) == 2 else next(iter(ends)) + 'strip', getattr(base, 'tag', '?')),
                    origin=('strop', ends, base), truth=True, nullness=False)
            d.strip_base = base
            d.strip_ends = ends
            cache[key] = d
        return cache[key]

    def _fork_blank(self, sym, st: State, node):
        """[(is blank, state)] of an unknown part"""
        if getattr(sym, 'strip_base', None) is not None:
            return [(False, st)]
        fact = self._blank_facts(st).get(id(sym))
        if fact is not None:
            return [(fact, st)]
        if self._emptiness_facts(st).get(id(sym)) is True:
            return [(True, st)]

        def rb(s_):
            s_.trace.append(Event('str-blank', [sym], node, s_.frame.func))

        def rn(s_):
            s_.trace.append(Event('str-nonblank', [sym], node, s_.frame.func))
            s_.trace.append(Event('str-nonempty', [sym], node, s_.frame.func))

        return self._fork2(st, node, rb, rn)

    def _strcat_method(self, sc: 'StrCat', meth: str, args, node, st: State):
        """isspace() / lstrip() / rstrip() / strip() of a symbolic text; rstrip / lstrip / strip of given characters
        only when every one of them is white space and the constant parts decide"""
        chars = None
        if args:
            if len(args) != 1 or not isinstance(args[0], K) or not isinstance(args[0].v, str) or meth == 'isspace':
                return None
            chars = args[0].v
            if chars.strip() != '':
                return None
        if meth == 'isspace':
            if any(isinstance(p_, K) and not p_.v.isspace() for p_ in sc.parts):
                return [('val', K(False), st)]
            results = []
            pending = [(st, 0)]
            while pending:
                s_, i = pending.pop()
                if i == len(sc.parts):
                    # every part is blank: white space exactly when something is there
                    if any(isinstance(p_, K) for p_ in sc.parts):
                        results.append(('val', K(True), s_))
                    else:
                        for ne, s2 in self._strcat_nonempty(sc, s_, node):
                            results.append(('val', K(ne), s2))
                    continue
                p_ = sc.parts[i]
                if isinstance(p_, K):
                    pending.append((s_, i + 1))
                    continue
                for blank, s2 in self._fork_blank(p_, s_, node):
                    if blank:
                        pending.append((s2, i + 1))
                    else:
                        results.append(('val', K(False), s2))
            return results

        def strip_end(parts, s_, left: bool):
            """[(parts, state)] after stripping one end"""
            out = []
            work = [(list(parts), s_)]
            while work:
                ps, s1 = work.pop()
                if not ps:
                    out.append((ps, s1))
                    continue
                t = ps[0] if left else ps[-1]
                rest = ps[1:] if left else ps[:-1]
                if isinstance(t, K):
                    if chars is None:
                        v_ = t.v.lstrip() if left else t.v.rstrip()
                    else:
                        v_ = t.v.lstrip(chars) if left else t.v.rstrip(chars)
                    if v_:
                        kept = t if v_ == t.v else K(v_)
                        out.append(([kept] + rest if left else rest + [kept], s1))
                    else:
                        work.append((rest, s1))
                    continue
                if chars is not None:
                    # stripping given characters off an unknown part: decided when the part is known empty, or is
                    # known not to contain any of them (then it stops the stripping unless it is empty)
                    if self._emptiness_facts(s1).get(id(t)) is True:
                        work.append((rest, s1))
                        continue
                    if set(chars) <= set(getattr(t, 'excludes', '')):
                        if not rest or self._emptiness_facts(s1).get(id(t)) is False:
                            out.append((ps, s1))
                            continue
                        for ne, s2 in self._strcat_nonempty(StrCat([t]), s1, node):
                            if ne:
                                out.append((list(ps), s2))
                            else:
                                work.append((list(rest), s2))
                        continue
                    return None
                for blank, s2 in self._fork_blank(t, s1, node):
                    if blank:
                        work.append((list(rest), s2))
                    else:
                        d = self._stripped(t, 'l' if left else 'r')
                        out.append(([d] + list(rest) if left else list(rest) + [d], s2))
            return out

        states = [(list(sc.parts), st)]
        for left in ((True,) if meth == 'lstrip' else (False,) if meth == 'rstrip' else (True, False)):
            nxt = []
            for ps, s1 in states:
                r = strip_end(ps, s1, left)
                if r is None:
                    return None
                nxt.extend(r)
            states = nxt
        return [('val', StrCat(ps) if ps else K(''), s1) for ps, s1 in states]

    @staticmethod
    def _emptiness_facts(st: State) -> dict:
        """id(symbol) -> True (known empty) / False (known non-empty), from the refinements recorded on this path"""
        out = {}
        for e in st.trace:
            if e.kind == 'str-empty':
                for x in e.data:
                    out[id(x)] = True
            elif e.kind == 'str-nonempty':
                for x in e.data:
                    out[id(x)] = False
        return out

    def _strcat_nonempty(self, v: 'StrCat', st: State, test, negate: bool = False):
        """[(truth, state)] of `<v> is a non-empty string`; on the empty branch every unknown part is known empty"""
        if v.certainly_nonempty():
            return [(not negate, st)]
        if not v.parts:
            return [(negate, st)]
        # what earlier tests on this path have established about the unknown parts
        known = self._emptiness_facts(st)
        rest = [p_ for p_ in v.parts if known.get(id(p_)) is not True]
        if any(known.get(id(p_)) is False for p_ in rest):
            return [(not negate, st)]
        if not rest:
            return [(negate, st)]

        def r_empty(s_):
            s_.trace.append(Event('str-empty', list(v.unknowns()), test, s_.frame.func))
            s_.replace_value(v, K(''))

        def r_nonempty(s_):
            if len(v.parts) == 1:
                s_.trace.append(Event('str-nonempty', list(v.unknowns()), test, s_.frame.func))

        if negate:
            return self._fork2(st, test, r_empty, r_nonempty)
        return self._fork2(st, test, r_nonempty, r_empty)

    def nullness(self, v: AVal) -> Optional[bool]:
        """True: is None, False: is not None, None: unknown"""
        if isinstance(v, K):
            return v.v is None
        if isinstance(v, Sym):
            if v.nullness is not None:
                return v.nullness
            if v.truth is True:
                return False
            return None
        return False

    def compare(self, op, l: AVal, r: AVal, st: State, test):
        if getattr(self.hooks, 'record_comparisons', False):
            st.trace.append(Event('cmp', (op, l, r), test, st.frame.func))
        oc = getattr(self.hooks, 'on_compare', None)
        if oc is not None:
            decided = oc(self, op, l, r, st, test)
            if decided is not None:
                return [(bool(decided), st)]
        neg = isinstance(op, (ast.IsNot, ast.NotEq, ast.NotIn))
        if isinstance(op, (ast.Is, ast.IsNot, ast.Eq, ast.NotEq)):
            # None tests
            for a, b in ((l, r), (r, l)):
                if isinstance(b, K) and b.v is None:
                    n = self.nullness(a)
                    if n is not None:
                        return [(n != neg, st)]
                    if isinstance(a, Sym):
                        def rt(s, a=a):
                            s.replace_value(a, NONE if not neg else a.refined(nullness=False))

                        def rf(s, a=a):
                            s.replace_value(a, a.refined(nullness=False) if not neg else NONE)

                        return self._fork2(st, test, rt, rf)
            if isinstance(op, (ast.Eq, ast.NotEq)):
                for a, b in ((l, r), (r, l)):
                    if isinstance(a, StrCat) and isinstance(b, K) and b.v == '':
                        # a == ''  <=>  a is empty
                        return self._strcat_nonempty(a, st, test, negate=not neg)
                    if isinstance(a, StrCat) and isinstance(b, K) and isinstance(b.v, str) and len(a.parts) == 2 \
                            and not isinstance(a.parts[0], K) and isinstance(a.parts[1], K):
                        # <unknown> + 't' == 'c'
                        sym, t = a.parts[0], a.parts[1].v
                        if not b.v.endswith(t):
                            return [(neg, st)]
                        if b.v == t:
                            # equal exactly when the unknown part is empty
                            fact = self._emptiness_facts(st).get(id(sym))
                            if fact is not None:
                                return [(fact != neg, st)]
                            def r_empty(s_, sym=sym):
                                s_.trace.append(Event('str-empty', [sym], test, s_.frame.func))

                            def r_nonempty(s_, sym=sym):
                                s_.trace.append(Event('str-nonempty', [sym], test, s_.frame.func))

                            if neg:
                                return self._fork2(st, test, r_nonempty, r_empty)
                            return self._fork2(st, test, r_empty, r_nonempty)
            if isinstance(l, K) and isinstance(r, K):
                eq = self.const_equal(l.v, r.v, isinstance(op, (ast.Is, ast.IsNot)), st)
                if eq is not None:
                    return [(eq != neg, st)]
                return self._fork2(st, test)
            for a, b in ((l, r), (r, l)):
                if isinstance(a, Sym) and isinstance(b, K) and _is_simple_const(b.v):
                    if any(_safe_eq(x, b.v) for x in a.neq):
                        return [(neg, st)]

                    def rt(s, a=a, b=b):
                        if not neg:
                            s.replace_value(a, b)
                        else:
                            na = a.refined()
                            na.neq = a.neq + (b.v,)
                            s.replace_value(a, na)

                    def rf(s, a=a, b=b):
                        if neg:
                            s.replace_value(a, b)
                        else:
                            na = a.refined()
                            na.neq = a.neq + (b.v,)
                            s.replace_value(a, na)

                    return self._fork2(st, test, rt, rf)
            return self._fork2(st, test)
        if isinstance(op, (ast.In, ast.NotIn)):
            items = self.concrete_items(r)
            if items is None and isinstance(r, K) and isinstance(r.v, dict):
                items = [wrap(k) for k in r.v.keys() if k != '__duplicate_keys__']
            if isinstance(l, K) and items is not None and all(isinstance(i, K) for i in items):
                res = False
                for i in items:
                    e = self.const_equal(l.v, i.v, False, st)
                    if e is None:
                        return self._fork2(st, test)
                    if e:
                        res = True
                        break
                return [(res != neg, st)]
            if isinstance(l, K) and isinstance(r, K) and isinstance(l.v, str) and isinstance(r.v, str):
                return [((l.v in r.v) != neg, st)]
            return self._fork2(st, test)
        if isinstance(l, K) and isinstance(r, K) and (isinstance(l.v, EnumMember) or isinstance(r.v, EnumMember)):
            # members of an integer enumeration are ordered by their values (EnumMember's own `<` is a sort key by
            # name and says nothing about the program); anything else about enum members is not decided here
            lv = l.v.value if isinstance(l.v, EnumMember) else l.v
            rv = r.v.value if isinstance(r.v, EnumMember) else r.v
            if isinstance(lv, int) and isinstance(rv, int) and not isinstance(lv, bool) and not isinstance(rv, bool):
                l, r = K(lv), K(rv)
            else:
                return self._fork2(st, test)
        if isinstance(l, K) and isinstance(r, K):
            try:
                if isinstance(op, ast.Lt):
                    return [(l.v < r.v, st)]
                if isinstance(op, ast.LtE):
                    return [(l.v <= r.v, st)]
                if isinstance(op, ast.Gt):
                    return [(l.v > r.v, st)]
                if isinstance(op, ast.GtE):
                    return [(l.v >= r.v, st)]
            except Exception:
                pass
        return self._fork2(st, test)

    def const_equal(self, a, b, identity: bool, st: State) -> Optional[bool]:
        """equality of two constant (folded) values the way Python would decide it; None = unknown.
        Records of classes that define __eq__ are compared by abstractly evaluating that method; tuple records
        without __eq__ compare like tuples; other records by identity."""
        if isinstance(a, AVal) or isinstance(b, AVal):
            return None
        ra, rb = isinstance(a, Record), isinstance(b, Record)
        if not ra and not rb:
            if isinstance(a, (tuple, list)) and isinstance(b, (tuple, list)) and type(a) == type(b):
                if len(a) != len(b):
                    return False
                out = True
                for x, y in zip(a, b):
                    e = self.const_equal(x, y, False, st)
                    if e is None:
                        return None
                    out = out and e
                return out
            try:
                if identity and _is_simple_const(a) and type(a) is not type(b):
                    return False  # `True is 1` is false although `True == 1`
                return (a is b) if identity and not _is_simple_const(a) else bool(a == b)
            except Exception:
                return None
        if identity:
            return a is b
        if a is b:
            # reflexive for every __eq__ the repository defines (checked value-wise below when not identical)
            pass
        rec = a if ra else b
        other = b if ra else a
        eq = self.ix.class_member(rec.cls, '__eq__')
        if isinstance(eq, FuncDef) and self.depth < 10:
            pp = eq.positional_params()
            if len(pp) == 2:
                s2 = st.fork()
                outs = self.call_function(eq, {pp[0].arg: K(rec), pp[1].arg: wrap(other)}, s2, None)
                vals = set()
                for kind, v, _ in outs:
                    if kind == 'val' and isinstance(v, K) and isinstance(v.v, bool):
                        vals.add(v.v)
                    else:
                        return None
                if len(vals) == 1:
                    return next(iter(vals))
            return None
        if not (ra and rb):
            return False
        if tuple_record_elements(self.ix, a.cls) is not None and tuple_record_elements(self.ix, b.cls) is not None:
            ea = [self.fo.record_tuple_element(a, i) for i in range(len(tuple_record_elements(self.ix, a.cls)[1]))]
            eb = [self.fo.record_tuple_element(b, i) for i in range(len(tuple_record_elements(self.ix, b.cls)[1]))]
            if any(is_unknown(x) for x in ea + eb):
                return None
            return self.const_equal(tuple(ea), tuple(eb), False, st)
        return a is b

    def isinstance_test(self, v: AVal, cls_node, st: State, test):
        types = cls_node.elts if isinstance(cls_node, ast.Tuple) else [cls_node]
        defs = [self.ix.resolve_static(st.frame.module, st.frame.func, t) for t in types]
        vcls = None
        exact = False
        if isinstance(v, Obj):
            vcls, exact = v.cls, True
        elif isinstance(v, Exc):
            vcls, exact = v.cls, True
        elif isinstance(v, K) and isinstance(v.v, Record):
            vcls, exact = v.v.cls, True
        elif isinstance(v, K) and isinstance(v.v, EnumMember):
            vcls, exact = v.v.cls, True
        elif isinstance(v, K) and v.v is None:
            return [(False, st)]
        elif isinstance(v, Sym) and v.cls is not None:
            vcls = v.cls
        if vcls is not None:
            for d in defs:
                r = self.exc_is_subclass(vcls, d)
                if r is True:
                    if exact or self.nullness(v) is False:
                        return [(True, st)]
            if exact and all(self.exc_is_subclass(vcls, d) is False for d in defs):
                return [(False, st)]
        return self._fork2(st, test)


def _is_simple_const(v) -> bool:
    return isinstance(v, (str, int, bool, EnumMember)) or v is None


def _safe_eq(a, b) -> bool:
    try:
        return a == b
    except Exception:
        return False


def _builtin_issubclass(c: str, base: str) -> Optional[bool]:
    def get(n):
        if n.startswith('builtins.'):
            o = getattr(_py_builtins, n.split('.', 1)[1].rstrip('?'), None)
            return o if isinstance(o, type) else None
        if n == 'subprocess.TimeoutExpired':
            import subprocess
            return subprocess.TimeoutExpired
        if n == 're.error':
            import re
            return re.error
        return None

    if c.endswith('?'):
        return None
    a, b = get(c), get(base)
    if a is None or b is None:
        return None
    return issubclass(a, b)
