"""E4: constant folder over module-level expressions.

Folds to a small value domain without importing or running repository code:
python constants, tuples/lists/frozensets/dicts of values, enum members,
symbolic record instances `Cls(args)` (arguments bound to parameter names),
references to functions/classes.  Everything else is Unknown(reason).
"""
import ast
from typing import Dict, Optional, Any, List

from .core import (Index, Module, FuncDef, ClassDef, VarDef, ParamDef, LocalDef, External, ModuleRef, Def,
                   AnalysisError, dotted_name, unparse, walk_own)

MAX_DEPTH = 14


class Opaque:
    """marker base class for abstract (non-constant) values that may be stored inside records;
    the folder never computes with them"""


def _opq(*vs) -> bool:
    return any(isinstance(v, Opaque) for v in vs)


class Unknown:
    def __init__(self, reason: str):
        self.reason = reason

    def __repr__(self):
        return 'Unknown(%s)' % self.reason

    def __eq__(self, other):
        return False

    def __hash__(self):
        return id(self)


class EnumMember:
    def __init__(self, cls: ClassDef, name: str, value):
        self.cls = cls
        self.name = name
        self.value = value

    def __repr__(self):
        return '%s.%s' % (self.cls.name, self.name)

    def __eq__(self, other):
        return isinstance(other, EnumMember) and other.cls == self.cls and other.name == self.name

    def __hash__(self):
        return hash((self.cls.key, self.name))

    def __lt__(self, other):
        return (self.cls.key, self.name) < (other.cls.key, other.name)


class Ref:
    """reference to a function / class / module / external object used as a value"""

    def __init__(self, d: Def, bound_self=None):
        self.d = d
        self.bound_self = bound_self

    def __repr__(self):
        return 'Ref(%s)' % self.d.key

    def __eq__(self, other):
        return isinstance(other, Ref) and other.d == self.d

    def __hash__(self):
        return hash(self.d)


class Record:
    """symbolic instance of a repository class: constructor arguments bound to parameter names"""

    def __init__(self, cls: ClassDef, args: Dict[str, Any], node=None):
        self.cls = cls
        self.args = args
        self.node = node

    def __repr__(self):
        return '%s(%s)' % (self.cls.name, ', '.join('%s=%r' % kv for kv in self.args.items()))

    def __eq__(self, other):
        return self is other

    def __hash__(self):
        return id(self)


class PathVal:
    """a pure path built from constant parts (pathlib.PurePosixPath / Path of folded strings)"""

    def __init__(self, parts):
        self.parts = tuple(parts)

    def __repr__(self):
        return 'PathVal(%s)' % '/'.join(self.parts)

    def __str__(self):
        return '/'.join(self.parts)

    def __eq__(self, other):
        return isinstance(other, PathVal) and other.parts == self.parts

    def __hash__(self):
        return hash(self.parts)

    def join(self, other):
        if isinstance(other, PathVal):
            return PathVal(self.parts + other.parts)
        if isinstance(other, str):
            return PathVal(self.parts + tuple(x for x in other.split('/') if x))
        return Unknown('path join with ' + type(other).__name__)


def is_unknown(v) -> bool:
    return isinstance(v, Unknown)


def contains_unknown(v) -> bool:
    if isinstance(v, Unknown):
        return True
    if isinstance(v, (tuple, list, frozenset, set)):
        return any(contains_unknown(x) for x in v)
    if isinstance(v, dict):
        return any(contains_unknown(k) or contains_unknown(x) for k, x in v.items())
    return False


class Folder:
    def __init__(self, index: Index):
        self.ix = index
        self._var_cache: Dict[str, Any] = {}
        self._enum_cache: Dict[str, Optional[Dict[str, EnumMember]]] = {}
        self._in_progress = set()

    # ------------------------------------------------------------------ enums
    def is_enum(self, c: ClassDef) -> bool:
        for k in self.ix.mro(c):
            if isinstance(k, External) and k.dotted in ('enum.Enum', 'enum.IntEnum', 'enum.Flag', 'enum.IntFlag'):
                return True
        return False

    def enum_members(self, c: ClassDef) -> Dict[str, EnumMember]:
        if c.key in self._enum_cache:
            r = self._enum_cache[c.key]
            if r is None:
                raise AnalysisError('not an enum: ' + c.key)
            return r
        if not self.is_enum(c):
            self._enum_cache[c.key] = None
            raise AnalysisError('not an enum: ' + c.key)
        out = {}
        auto = 0
        for st in c.node.body:
            if isinstance(st, ast.Assign) and len(st.targets) == 1 and isinstance(st.targets[0], ast.Name):
                nm = st.targets[0].id
                if nm.startswith('_'):
                    continue
                if isinstance(st.value, ast.Call) and (dotted_name(st.value.func) or '').split('.')[-1] == 'auto':
                    auto += 1
                    val = auto
                else:
                    val = self.fold(c.module, None, st.value)
                    if isinstance(val, int) and not isinstance(val, bool):
                        auto = val
                out[nm] = EnumMember(c, nm, val)
        self._enum_cache[c.key] = out
        return out

    def enum_by_value(self, c: ClassDef, value) -> Any:
        for m in self.enum_members(c).values():
            if not is_unknown(m.value) and m.value == value:
                return m
        return Unknown('no member of %s has value %r' % (c.name, value))

    # ------------------------------------------------------------------ entry points
    def fold_var(self, v: VarDef) -> Any:
        k = v.key
        if k in self._var_cache:
            return self._var_cache[k]
        if k in self._in_progress:
            return Unknown('recursive definition of ' + k)
        self._in_progress.add(k)
        try:
            if len(v.values) != 1:
                # augmented / multiple assignment at module level
                r = self._fold_multi(v)
            else:
                r = self.fold(v.module, None, v.value, cls_ctx=v.owner)
        finally:
            self._in_progress.discard(k)
        self._var_cache[k] = r
        return r

    def _fold_multi(self, v: VarDef):
        cur = Unknown('unassigned')
        for val, st in zip(v.values, v.stmts):
            if isinstance(st, ast.AugAssign):
                rhs = self.fold(v.module, None, st.value)
                cur = self._binop(st.op, cur, rhs)
            else:
                cur = self.fold(v.module, None, val)
        return cur

    def fold_path(self, path: str) -> Any:
        d = self.ix.lookup(path)
        return self.fold_def(d)

    def fold_def(self, d: Def) -> Any:
        if isinstance(d, VarDef):
            return self.fold_var(d)
        if isinstance(d, (FuncDef, ClassDef, External, ModuleRef)):
            return Ref(d)
        return Unknown('cannot fold %r' % d)

    def fold(self, m: Module, func: Optional[FuncDef], node, env: Optional[dict] = None, depth: int = 0,
             cls_ctx: Optional[ClassDef] = None) -> Any:
        if depth > MAX_DEPTH:
            return Unknown('depth')
        F = lambda n, e=env: self.fold(m, func, n, e, depth + 1, cls_ctx)
        if node is None:
            return Unknown('no value')
        if isinstance(node, ast.Constant):
            return node.value
        if isinstance(node, ast.Name):
            if env is not None and node.id in env:
                return env[node.id]
            if node.id in ('True', 'False', 'None'):
                return {'True': True, 'False': False, 'None': None}[node.id]
            d = self.ix.resolve_name(m, func, node.id, cls_ctx)
            return self._value_of_def(d, m, func, env, depth, node)
        if isinstance(node, ast.Attribute):
            return self._fold_attribute(m, func, node, env, depth, cls_ctx)
        if isinstance(node, (ast.Tuple, ast.List)):
            out = []
            for e in node.elts:
                if isinstance(e, ast.Starred):
                    v = F(e.value)
                    if isinstance(v, (tuple, list, frozenset)):
                        out.extend(_ordered(v))
                    else:
                        return Unknown('starred ' + unparse(e))
                else:
                    out.append(F(e))
            return tuple(out) if isinstance(node, ast.Tuple) else list(out)
        if isinstance(node, ast.Set):
            vals = [F(e) for e in node.elts]
            try:
                return frozenset(vals)
            except TypeError:
                return Unknown('unhashable set element')
        if isinstance(node, ast.Dict):
            out = {}
            for k, v in zip(node.keys, node.values):
                if k is None:
                    sub = F(v)
                    if isinstance(sub, dict):
                        out.update(sub)
                    else:
                        return Unknown('dict unpack')
                    continue
                kv = F(k)
                try:
                    hash(kv)
                except TypeError:
                    return Unknown('unhashable key')
                if is_unknown(kv):
                    return Unknown('unknown dict key %s: %s' % (unparse(k), kv.reason))
                if kv in out:
                    out.setdefault('__duplicate_keys__', [])
                    out['__duplicate_keys__'].append(kv)
                out[kv] = F(v)
            return out
        if isinstance(node, ast.BinOp):
            return self._binop(node.op, F(node.left), F(node.right))
        if isinstance(node, ast.UnaryOp):
            v = F(node.operand)
            if is_unknown(v):
                return v
            if _opq(v):
                return Unknown('opaque operand')
            try:
                if isinstance(node.op, ast.Not):
                    return not v
                if isinstance(node.op, ast.USub):
                    return -v
                if isinstance(node.op, ast.UAdd):
                    return +v
            except Exception as ex:
                return Unknown('unary: %s' % ex)
            return Unknown('unary op')
        if isinstance(node, ast.BoolOp):
            vals = [F(v) for v in node.values]
            if any(is_unknown(v) for v in vals) or _opq(*vals):
                return Unknown('boolop operand')
            r = vals[0]
            for v in vals[1:]:
                r = (r and v) if isinstance(node.op, ast.And) else (r or v)
            return r
        if isinstance(node, ast.Compare):
            left = F(node.left)
            res = True
            for op, c in zip(node.ops, node.comparators):
                right = F(c)
                if is_unknown(left) or is_unknown(right) or _opq(left, right):
                    return Unknown('compare operand')
                try:
                    if isinstance(op, (ast.Eq, ast.Is)):
                        r = left == right
                    elif isinstance(op, (ast.NotEq, ast.IsNot)):
                        r = left != right
                    elif isinstance(op, ast.In):
                        r = left in right
                    elif isinstance(op, ast.NotIn):
                        r = left not in right
                    elif isinstance(op, ast.Lt):
                        r = left < right
                    elif isinstance(op, ast.LtE):
                        r = left <= right
                    elif isinstance(op, ast.Gt):
                        r = left > right
                    elif isinstance(op, ast.GtE):
                        r = left >= right
                    else:
                        return Unknown('compare op')
                except Exception as ex:
                    return Unknown('compare: %s' % ex)
                res = res and r
                left = right
            return res
        if isinstance(node, ast.IfExp):
            t = F(node.test)
            if is_unknown(t):
                return Unknown('ifexp test: ' + t.reason)
            if _opq(t):
                return Unknown('opaque test')
            return F(node.body) if t else F(node.orelse)
        if isinstance(node, ast.Subscript):
            base = F(node.value)
            if is_unknown(base):
                return base
            if isinstance(node.slice, ast.Slice):
                lo = F(node.slice.lower) if node.slice.lower is not None else None
                hi = F(node.slice.upper) if node.slice.upper is not None else None
                st = F(node.slice.step) if node.slice.step is not None else None
                try:
                    return base[lo:hi:st]
                except Exception as ex:
                    return Unknown('slice: %s' % ex)
            idx = F(node.slice)
            if is_unknown(idx):
                return idx
            if _opq(idx, base):
                return Unknown('opaque subscript')
            if isinstance(base, Record):
                el = self.record_tuple_element(base, idx, depth)
                return el
            try:
                return base[idx]
            except Exception as ex:
                return Unknown('subscript %s: %s' % (unparse(node), type(ex).__name__))
        if isinstance(node, ast.Call):
            return self._fold_call(m, func, node, env, depth, cls_ctx)
        if isinstance(node, (ast.ListComp, ast.SetComp, ast.GeneratorExp, ast.DictComp)):
            return self._fold_comp(m, func, node, env, depth, cls_ctx)
        if isinstance(node, ast.JoinedStr):
            parts = []
            for v in node.values:
                if isinstance(v, ast.Constant):
                    parts.append(str(v.value))
                elif isinstance(v, ast.FormattedValue):
                    x = F(v.value)
                    if is_unknown(x) or not isinstance(x, (str, int)):
                        return Unknown('f-string part')
                    parts.append(str(x))
            return ''.join(parts)
        if isinstance(node, ast.Lambda):
            return Unknown('lambda')
        if isinstance(node, ast.Starred):
            return Unknown('starred')
        return Unknown('unsupported node ' + type(node).__name__)

    # ------------------------------------------------------------------ helpers
    def _value_of_def(self, d, m, func, env, depth, node):
        if d is None:
            return Unknown('unresolved name ' + unparse(node))
        if isinstance(d, VarDef):
            return self.fold_var(d)
        if isinstance(d, (FuncDef, ClassDef, ModuleRef, External)):
            return Ref(d)
        if isinstance(d, ParamDef):
            return Unknown('parameter ' + d.name)
        if isinstance(d, LocalDef):
            vals = [b for b in d.bindings if b[0] == 'assign']
            if len(vals) == 1 and len(d.bindings) == 1 and vals[0][1] is not None:
                return self.fold(d.func.module, d.func, vals[0][1], env, depth + 1)
            return Unknown('local ' + d.name)
        return Unknown('def kind ' + d.kind)

    def _fold_attribute(self, m, func, node, env, depth, cls_ctx):
        # try static resolution of the whole chain first (module.CONST, Enum.MEMBER, Class.attr)
        base_static = self.ix.resolve_static(m, func, node.value, cls_ctx) if _is_dotted(node.value) and not (
                env and _root_name(node.value) in env) else None
        if isinstance(base_static, ClassDef):
            if self.is_enum(base_static):
                mem = self.enum_members(base_static).get(node.attr)
                if mem is not None:
                    return mem
            d = self.ix.class_member(base_static, node.attr)
            if d is not None:
                if isinstance(d, VarDef):
                    return self.fold(d.module, None, d.value, None, depth + 1, cls_ctx=d.owner)
                return Ref(d)
            return Unknown('no attribute %s on class %s' % (node.attr, base_static.name))
        if isinstance(base_static, (ModuleRef, External)):
            d = self.ix.member_of(base_static, node.attr)
            if d is None:
                return Unknown('no member %s in %s' % (node.attr, base_static.key))
            return self._value_of_def(d, m, func, env, depth, node)
        base = self.fold(m, func, node.value, env, depth + 1, cls_ctx)
        return self.attr_of_value(base, node.attr, depth)

    def attr_of_value(self, base, attr: str, depth=0):
        if is_unknown(base):
            return base
        if _opq(base):
            return Unknown('attribute of an opaque value')
        if isinstance(base, EnumMember):
            if attr == 'name':
                return base.name
            if attr == 'value':
                return base.value
            # property / method of the enum class
            d = self.ix.class_member(base.cls, attr)
            if isinstance(d, FuncDef) and d.is_property:
                return self._inline(d, {d.self_name: base}, depth)
            return Unknown('enum attr ' + attr)
        if isinstance(base, Record):
            return self.record_attr(base, attr, depth)
        if isinstance(base, Ref):
            d = base.d
            if isinstance(d, FuncDef) and d.is_property and attr == 'fget':
                return base
            if isinstance(d, ClassDef):
                if self.is_enum(d):
                    mem = self.enum_members(d).get(attr)
                    if mem is not None:
                        return mem
                md = self.ix.class_member(d, attr)
                if md is not None:
                    if isinstance(md, VarDef):
                        return self.fold(md.module, None, md.value, None, depth + 1, cls_ctx=md.owner)
                    return Ref(md)
            if isinstance(d, (ModuleRef, External)):
                md = self.ix.member_of(d, attr)
                if md is not None:
                    return self.fold_def(md)
            return Unknown('attr %s of %r' % (attr, base))
        if isinstance(base, str) and attr in ('upper', 'lower', 'format', 'join', 'strip', 'capitalize', 'title',
                                              'startswith', 'endswith', 'lstrip', 'rstrip', 'replace'):
            return _BoundPy(base, attr)
        if isinstance(base, (frozenset, set)) and attr in ('union', 'difference', 'intersection', 'issubset'):
            return _BoundPy(base, attr)
        if isinstance(base, dict) and attr in ('keys', 'values', 'items', 'get'):
            return _BoundPy(base, attr)
        if isinstance(base, (list, tuple)) and attr in ('index', 'count'):
            return _BoundPy(base, attr)
        return Unknown('attribute %s of %s' % (attr, type(base).__name__))

    def record_attr(self, rec: Record, attr: str, depth=0):
        c = rec.cls
        d = self.ix.class_member(c, attr)
        if isinstance(d, FuncDef):
            if d.is_property:
                return self._inline(d, {d.self_name: rec}, depth)
            return Ref(d, bound_self=rec)
        # attribute assigned in __init__ from a parameter expression
        assigns = self.ix.self_attr_assignments(c, attr)
        inits = [(meth, v) for meth, v, st in assigns if meth.name == '__init__']
        if len(inits) > 1:
            # several constructors of the MRO assign it: the most derived class (first in MRO order) runs last
            # (after its super().__init__() call) and wins; within one constructor the last assignment wins
            first_cls = inits[0][0].cls
            own = [x for x in inits if x[0].cls == first_cls]
            inits = own[-1:]
        if len(inits) == 1:
            meth, v = inits[0]
            env = self.init_env(rec, meth, depth)
            if env is None:
                return Unknown('cannot bind constructor chain of %s up to %s' % (c.name, meth.key))
            env[meth.self_name] = rec
            return self.fold(meth.module, meth, v, env, depth + 1)
        if isinstance(d, VarDef):
            return self.fold(d.module, None, d.value, None, depth + 1, cls_ctx=d.owner)
        if attr in rec.args and not assigns:
            return rec.args[attr]
        return Unknown('attribute %s of record %s' % (attr, c.name))

    def init_env(self, rec: Record, target_init: FuncDef, depth=0) -> Optional[dict]:
        """parameter environment of `target_init` (an __init__ in rec.cls's MRO) for the instance rec:
        follows `super().__init__(...)` / `Base.__init__(self, ...)` calls up the constructor chain."""
        cur = self.ix.class_member(rec.cls, '__init__')
        env = dict(rec.args)
        for _ in range(8):
            if not isinstance(cur, FuncDef):
                return None
            if cur == target_init:
                return env
            nxt = None
            for n in walk_own(cur.node):
                if isinstance(n, ast.Call) and isinstance(n.func, ast.Attribute) and n.func.attr == '__init__':
                    callee = self.ix.resolve_value(cur.module, cur, n.func)
                    if isinstance(callee, FuncDef):
                        is_super = isinstance(n.func.value, ast.Call)
                        call = n
                        if not is_super:
                            # Base.__init__(self, a, b): drop the explicit self argument
                            call = ast.Call(func=n.func, args=n.args[1:], keywords=n.keywords)
                        env2 = dict(env)
                        env2[cur.self_name] = rec
                        bound = self.bind_args(callee, call, cur.module, cur, env2, depth + 1, None, skip_first=True)
                        if bound is None:
                            return None
                        nxt = (callee, bound)
                        break
            if nxt is None:
                return None
            cur, env = nxt
        return None

    def record_tuple_element(self, rec: Record, idx, depth=0):
        """element idx of the tuple built by `tuple.__new__(cls, (...))` in the record's __new__"""
        elts = tuple_record_elements(self.ix, rec.cls)
        if elts is None or not isinstance(idx, int) or idx >= len(elts[1]) or idx < -len(elts[1]):
            return Unknown('tuple element %r of %s' % (idx, rec.cls.name))
        newf, el_nodes = elts
        env = dict(rec.args)
        return self.fold(newf.module, newf, el_nodes[idx], env, depth + 1)

    def _inline(self, f: FuncDef, env: dict, depth):
        if depth > MAX_DEPTH:
            return Unknown('depth')
        ret = single_return_expr(f)
        if ret is None:
            let = straight_line_lets(f)
            if let is None:
                return Unknown('function %s is not a single return expression' % f.key)
            env = dict(env)
            for name, value in let[0]:
                env[name] = self.fold(f.module, f, value, env, depth + 1)
            ret = let[1]
        return self.fold(f.module, f, ret, env, depth + 1)

    def bind_args(self, f: FuncDef, call: ast.Call, m, func, env, depth, cls_ctx, skip_first: bool) -> Optional[dict]:
        pos = f.positional_params()
        if skip_first:
            pos = pos[1:]
        names = [p.arg for p in pos]
        bound = {}
        i = 0
        for a in call.args:
            if isinstance(a, ast.Starred):
                return None
            if i >= len(names):
                if f.node.args.vararg is not None:
                    bound.setdefault('*' + f.node.args.vararg.arg, []).append(
                        self.fold(m, func, a, env, depth + 1, cls_ctx))
                    continue
                return None
            bound[names[i]] = self.fold(m, func, a, env, depth + 1, cls_ctx)
            i += 1
        for kw in call.keywords:
            if kw.arg is None:
                return None
            bound[kw.arg] = self.fold(m, func, kw.value, env, depth + 1, cls_ctx)
        # defaults
        a = f.node.args
        pos_all = f.positional_params()
        defaults = a.defaults
        for p, dflt in zip(pos_all[len(pos_all) - len(defaults):], defaults):
            if p.arg not in bound:
                bound[p.arg] = self.fold(f.module, f.parent, dflt, None, depth + 1)
        for p, dflt in zip(a.kwonlyargs, a.kw_defaults):
            if p.arg not in bound and dflt is not None:
                bound[p.arg] = self.fold(f.module, f.parent, dflt, None, depth + 1)
        return bound

    def _fold_call(self, m, func, node: ast.Call, env, depth, cls_ctx):
        F = lambda n: self.fold(m, func, n, env, depth + 1, cls_ctx)
        # method on folded python value
        fv = F(node.func) if not isinstance(node.func, ast.Name) or (env and node.func.id in env) else None
        if fv is None:
            d = self.ix.resolve_name(m, func, node.func.id, cls_ctx)
            if isinstance(d, VarDef):
                fv = self.fold_var(d)
            elif d is None:
                return Unknown('unresolved callee ' + node.func.id)
            elif isinstance(d, (ParamDef, LocalDef)):
                fv = self._value_of_def(d, m, func, env, depth, node.func)
            else:
                fv = Ref(d)
        if isinstance(fv, _BoundPy):
            args = [F(a) for a in node.args]
            kwargs = {kw.arg: F(kw.value) for kw in node.keywords if kw.arg}
            if any(contains_unknown(a) for a in args) or any(contains_unknown(v) for v in kwargs.values()):
                if fv.attr == 'get' and args and not is_unknown(args[0]):
                    pass
                else:
                    return Unknown('argument of .%s()' % fv.attr)
            return fv.call(args, kwargs)
        if is_unknown(fv):
            return Unknown('callee %s: %s' % (unparse(node.func), fv.reason))
        if not isinstance(fv, Ref):
            return Unknown('call of non-function ' + unparse(node.func))
        d = fv.d
        if isinstance(d, External):
            return self._fold_builtin(d.dotted, node, F)
        if isinstance(d, ClassDef):
            if self.is_enum(d) and len(node.args) == 1 and not node.keywords:
                v = F(node.args[0])
                if is_unknown(v):
                    return v
                return self.enum_by_value(d, v)
            ctor = self.ix.class_member(d, '__new__')
            if not isinstance(ctor, FuncDef):
                ctor = self.ix.class_member(d, '__init__')
            if isinstance(ctor, FuncDef):
                bound = self.bind_args(ctor, node, m, func, env, depth, cls_ctx, skip_first=True)
                if bound is None:
                    return Unknown('cannot bind arguments of ' + unparse(node.func))
                return Record(d, bound, node)
            if not node.args and not node.keywords:
                return Record(d, {}, node)
            # no constructor in the repo (e.g. NamedTuple-like): keep positional
            return Record(d, {'#%d' % i: F(a) for i, a in enumerate(node.args)}, node)
        if isinstance(d, FuncDef):
            skip = d.cls is not None and not d.is_static
            bound = self.bind_args(d, node, m, func, env, depth, cls_ctx, skip_first=skip)
            if bound is None:
                return Unknown('cannot bind arguments of ' + unparse(node.func))
            if skip and d.self_name:
                bound[d.self_name] = fv.bound_self if fv.bound_self is not None else (
                    Ref(d.cls) if d.is_classmethod else Unknown('self'))
            return self._inline(d, bound, depth)
        return Unknown('call of ' + d.kind)

    def _fold_builtin(self, dotted: str, node: ast.Call, F):
        name = dotted.split('.')[-1] if dotted.startswith('builtins.') else dotted
        args = [F(a) for a in node.args]
        if any(is_unknown(a) for a in args):
            return Unknown('argument of %s(): %s' % (name, next(a.reason for a in args if is_unknown(a))))
        if _opq(*args):
            return Unknown('opaque argument of %s()' % name)
        try:
            if name in ('frozenset', 'set'):
                return frozenset(_ordered(args[0])) if args else frozenset()
            if name == 'tuple':
                return tuple(_ordered(args[0])) if args else ()
            if name == 'list':
                return list(_ordered(args[0])) if args else []
            if name == 'dict':
                if not args:
                    return {kw.arg: F(kw.value) for kw in node.keywords}
                if isinstance(args[0], dict):
                    return dict(args[0])
                return dict(args[0])
            if name in ('pathlib.PurePosixPath', 'pathlib.Path', 'pathlib.PurePath'):
                pv = PathVal(())
                for a in args:
                    pv = pv.join(a)
                    if is_unknown(pv):
                        return pv
                return pv
            if name == 'len':
                return len(args[0])
            if name == 'str':
                return str(args[0]) if isinstance(args[0], (str, int, PathVal)) else Unknown('str()')
            if name == 'int':
                return int(args[0])
            if name == 'sorted' and not node.keywords:
                return sorted(args[0])
            if name in ('min', 'max') and not node.keywords:
                return (min if name == 'min' else max)(*args)
            if name == 'range':
                return list(range(*args))
            if name == 'enumerate':
                return list(enumerate(*args))
            if name == 'zip':
                return list(zip(*args))
            if name == 'itertools.chain':
                out = []
                for a in args:
                    out.extend(_ordered(a))
                return out
            if name == 'itertools.chain.from_iterable':
                out = []
                for a in _ordered(args[0]):
                    out.extend(_ordered(a))
                return out
            if name == 'types.MappingProxyType':
                return args[0]
        except Exception as ex:
            return Unknown('%s(): %s' % (name, ex))
        return Unknown('external call ' + dotted)

    def _fold_comp(self, m, func, node, env, depth, cls_ctx):
        results = []

        def rec(gi, e):
            if gi == len(node.generators):
                if isinstance(node, ast.DictComp):
                    results.append((self.fold(m, func, node.key, e, depth + 1, cls_ctx),
                                    self.fold(m, func, node.value, e, depth + 1, cls_ctx)))
                else:
                    results.append(self.fold(m, func, node.elt, e, depth + 1, cls_ctx))
                return None
            g = node.generators[gi]
            it = self.fold(m, func, g.iter, e, depth + 1, cls_ctx)
            if is_unknown(it):
                return it
            if isinstance(it, dict):
                it = list(it.keys())
            if not isinstance(it, (list, tuple, frozenset, set)):
                return Unknown('comprehension over ' + type(it).__name__)
            for x in _ordered(it):
                e2 = dict(e or {})
                if not _bind_target(g.target, x, e2):
                    return Unknown('comprehension target')
                ok = True
                for cond in g.ifs:
                    c = self.fold(m, func, cond, e2, depth + 1, cls_ctx)
                    if is_unknown(c):
                        return Unknown('comprehension condition: ' + c.reason)
                    if not c:
                        ok = False
                        break
                if ok:
                    r = rec(gi + 1, e2)
                    if r is not None:
                        return r
            return None

        err = rec(0, env)
        if err is not None:
            return err
        try:
            if isinstance(node, ast.DictComp):
                return dict(results)
            if isinstance(node, ast.SetComp):
                return frozenset(results)
        except TypeError:
            return Unknown('unhashable')
        return list(results)

    def _binop(self, op, l, r):
        if is_unknown(l):
            return l
        if is_unknown(r):
            return r
        if _opq(l, r):
            return Unknown('opaque operand')
        try:
            if isinstance(op, ast.Add):
                if isinstance(l, tuple) and isinstance(r, list):
                    return l + tuple(r)
                if isinstance(l, list) and isinstance(r, tuple):
                    return l + list(r)
                return l + r
            if isinstance(op, ast.Sub):
                return l - r
            if isinstance(op, ast.Mult):
                return l * r
            if isinstance(op, ast.BitOr):
                if isinstance(l, dict) and isinstance(r, dict):
                    d = dict(l)
                    d.update(r)
                    return d
                return l | r
            if isinstance(op, ast.BitAnd):
                return l & r
            if isinstance(op, ast.Div):
                if isinstance(l, PathVal):
                    return l.join(r)
                return Unknown('division')
            if isinstance(op, ast.FloorDiv):
                return l // r
            if isinstance(op, ast.Mod):
                if isinstance(l, str):
                    return l % r
                return l % r
            if isinstance(op, ast.Pow):
                return l ** r
        except Exception as ex:
            return Unknown('binop: %s' % ex)
        return Unknown('binop ' + type(op).__name__)


class _BoundPy:
    def __init__(self, base, attr):
        self.base = base
        self.attr = attr

    def call(self, args, kwargs):
        try:
            if self.attr == 'union':
                r = set(self.base)
                for a in args:
                    r |= set(a)
                return frozenset(r)
            if self.attr == 'difference':
                r = set(self.base)
                for a in args:
                    r -= set(a)
                return frozenset(r)
            if self.attr == 'intersection':
                r = set(self.base)
                for a in args:
                    r &= set(a)
                return frozenset(r)
            if self.attr == 'keys':
                return list(self.base.keys())
            if self.attr == 'values':
                return list(self.base.values())
            if self.attr == 'items':
                return list(self.base.items())
            if self.attr == 'get':
                return self.base.get(*args)
            if self.attr == 'join':
                return self.base.join(args[0])
            return getattr(self.base, self.attr)(*args, **kwargs)
        except Exception as ex:
            return Unknown('.%s(): %s' % (self.attr, ex))


def _ordered(v):
    if isinstance(v, (frozenset, set)):
        try:
            return sorted(v)
        except TypeError:
            return sorted(v, key=repr)
    if isinstance(v, dict):
        return list(v.keys())
    return list(v)


def _bind_target(t, x, env) -> bool:
    if isinstance(t, ast.Name):
        env[t.id] = x
        return True
    if isinstance(t, (ast.Tuple, ast.List)):
        if not isinstance(x, (tuple, list)) or len(x) != len(t.elts):
            return False
        return all(_bind_target(tt, xx, env) for tt, xx in zip(t.elts, x))
    return False


def _is_dotted(node) -> bool:
    return dotted_name(node) is not None


def _root_name(node) -> Optional[str]:
    while isinstance(node, ast.Attribute):
        node = node.value
    return node.id if isinstance(node, ast.Name) else None


def single_return_expr(f: FuncDef) -> Optional[ast.AST]:
    body = [s for s in f.node.body
            if not (isinstance(s, ast.Expr) and isinstance(s.value, ast.Constant) and isinstance(s.value.value, str))]
    body = [s for s in body if not isinstance(s, (ast.Assert, ast.Pass))]
    if len(body) == 1 and isinstance(body[0], ast.Return) and body[0].value is not None:
        return body[0].value
    # `tmp = <expr>; return tmp`  (tmp bound once, nothing else in the body)
    if len(body) == 2 and isinstance(body[1], ast.Return) and isinstance(body[1].value, ast.Name) \
            and isinstance(body[0], ast.Assign) and len(body[0].targets) == 1 \
            and isinstance(body[0].targets[0], ast.Name) and body[0].targets[0].id == body[1].value.id:
        return body[0].value
    return None


def straight_line_lets(f: FuncDef):
    """([(name, value expr)], return expr) of a body that is `n1 = e1; n2 = e2; ...; return e` with every name bound
    once and no name a parameter (local temporaries of a pure expression), else None"""
    body = [s for s in f.node.body
            if not (isinstance(s, ast.Expr) and isinstance(s.value, ast.Constant) and isinstance(s.value.value, str))]
    body = [s for s in body if not isinstance(s, (ast.Assert, ast.Pass))]
    if len(body) < 2 or not isinstance(body[-1], ast.Return) or body[-1].value is None:
        return None
    params = {p.arg for p in f.params}
    lets = []
    for s in body[:-1]:
        if not (isinstance(s, ast.Assign) and len(s.targets) == 1 and isinstance(s.targets[0], ast.Name)):
            return None
        name = s.targets[0].id
        if name in params or any(name == n for n, _ in lets):
            return None
        lets.append((name, s.value))
    return lets, body[-1].value


def tuple_record_elements(ix: Index, c: ClassDef):
    """(the __new__ FuncDef, [element expr nodes]) of `return tuple.__new__(cls, (e0, e1, ...))`, or None"""
    newf = ix.class_member(c, '__new__')
    if not isinstance(newf, FuncDef):
        return None
    for n in walk_own(newf.node):
        if isinstance(n, ast.Call) and dotted_name(n.func) == 'tuple.__new__' and len(n.args) == 2 \
                and isinstance(n.args[1], (ast.Tuple, ast.List)):
            return newf, list(n.args[1].elts)
    return None
