#!/venv/bin/python
"""Development helper: confirm a seeded change and run the static checks against it.

usage: seedtest.py <seed-dir> [--props C01,C03] [--no-confirm]

<seed-dir> holds patch.diff, a demo (demo.py / demo.sh) and meta.json.  Works in a
scratch git worktree of /repo outside /repo and /verif, removed at the end:
  1. demo on the unchanged tree must exit 0
  2. patch applies; pinned baseline still passes; demo must exit non-zero
  3. the listed checks are run with --repo <worktree>; exit codes are reported
"""
import json, os, subprocess, sys, tempfile, shutil

VERIF = os.path.dirname(os.path.dirname(os.path.abspath(__file__)))


def sh(cmd, **kw):
    return subprocess.run(cmd, shell=isinstance(cmd, str), stdout=subprocess.PIPE, stderr=subprocess.STDOUT,
                          universal_newlines=True, **kw)


def main():
    args = sys.argv[1:]
    seed = os.path.abspath(args[0])
    props = None
    confirm = True
    for i, a in enumerate(args):
        if a == '--props':
            props = args[i + 1].split(',')
        if a == '--no-confirm':
            confirm = False
    meta = {}
    if os.path.isfile(os.path.join(seed, 'meta.json')):
        meta = json.load(open(os.path.join(seed, 'meta.json')))
    if props is None:
        props = [meta.get('property')] if meta.get('property') else []
    demo = None
    for n in ('demo.py', 'demo.sh'):
        if os.path.isfile(os.path.join(seed, n)):
            demo = os.path.join(seed, n)
    wt = tempfile.mkdtemp(prefix='seedtest-', dir='/tmp')
    os.rmdir(wt)
    result = {'seed': seed}
    try:
        r = sh(['git', '-C', '/repo', 'worktree', 'add', '-q', '--detach', wt, 'HEAD'])
        if r.returncode:
            print(r.stdout)
            return 2

        def run_demo():
            if demo.endswith('.py'):
                return sh(['/venv/bin/python', demo, wt], timeout=900)
            return sh(['sh', demo, wt], timeout=900)

        if confirm and demo:
            r = run_demo()
            result['demo_clean'] = r.returncode
            if r.returncode != 0:
                print('DEMO FAILS ON CLEAN TREE:\n' + r.stdout[-2000:])
        r = sh(['git', '-C', wt, 'apply', os.path.join(seed, 'patch.diff')])
        if r.returncode:
            print('PATCH DOES NOT APPLY:\n' + r.stdout)
            return 2
        if confirm:
            r = sh(['/venv/bin/python', os.path.join(VERIF, 'tools', 'baseline_check.py'), wt])
            result['baseline'] = r.stdout.strip().splitlines()[0] if r.stdout.strip() else '?'
            if demo:
                r = run_demo()
                result['demo_patched'] = r.returncode
                result['demo_tail'] = r.stdout[-600:]
        evd = tempfile.mkdtemp(prefix='seedev-', dir='/tmp')
        try:
            for p in props:
                r = sh([os.path.join(VERIF, 'verify'), 'check', p, '--repo', wt, '--evidence-dir', evd,
                        '--replay-dir', evd])
                lines = [l for l in r.stdout.splitlines() if 'VIOLATION' in l or 'ANALYSIS-ERROR' in l
                         or l.startswith('src/')]
                result['check_' + p] = {'exit': r.returncode, 'lines': lines[:12]}
        finally:
            shutil.rmtree(evd, ignore_errors=True)
    finally:
        sh(['git', '-C', '/repo', 'worktree', 'remove', '--force', wt])
        shutil.rmtree(wt, ignore_errors=True)
    print(json.dumps(result, indent=1))
    return 0


if __name__ == '__main__':
    sys.exit(main())
