#!/venv/bin/python
"""Development helper (never part of a property check): AST-computed one-edit mutants of the files a property is
anchored in, each applied to a scratch worktree of /repo under /tmp (removed afterwards).  For every mutant it records

  * whether the static check of the property reports it (exit 1), is disturbed by it (exit 2) or is silent (exit 0),
  * whether the repository's own unittests of the nearest test package notice it (failures + errors above what the
    unchanged tree has) - this is only used to tell behaviour-changing mutants from equivalent ones when the two
    columns are read side by side; it decides nothing about a property.

usage: mutation_survey.py [--props C01,C02] [--per-file N] [--per-prop N] [--jobs J] [--seed S] [--no-tests]
       writes /verif/seeded/MUTATION_SURVEY.md (table) and prints a summary.
"""
import ast, json, os, random, subprocess, sys, tempfile, shutil, hashlib
from concurrent.futures import ThreadPoolExecutor

VERIF = os.path.dirname(os.path.dirname(os.path.abspath(__file__)))
REPO = '/repo'


def sh(cmd, **kw):
    return subprocess.run(cmd, shell=isinstance(cmd, str), stdout=subprocess.PIPE, stderr=subprocess.STDOUT,
                          universal_newlines=True, **kw)


# ---------------------------------------------------------------- mutants

class Mut:
    def __init__(self, file, lineno, col, end_lineno, end_col, new_text, kind, descr):
        self.file, self.kind, self.descr = file, kind, descr
        self.span = (lineno, col, end_lineno, end_col)
        self.new_text = new_text

    def apply(self, src):
        lines = src.splitlines(keepends=True)
        l0, c0, l1, c1 = self.span
        # ast columns are utf8 byte offsets
        def cut(line, c):
            return line.encode('utf8')[:c].decode('utf8'), line.encode('utf8')[c:].decode('utf8')
        pre = ''.join(lines[:l0 - 1]) + cut(lines[l0 - 1], c0)[0]
        post = cut(lines[l1 - 1], c1)[1] + ''.join(lines[l1:])
        return pre + self.new_text + post


CMP_SWAP = {ast.Lt: ast.LtE, ast.LtE: ast.Lt, ast.Gt: ast.GtE, ast.GtE: ast.Gt, ast.Eq: ast.NotEq,
            ast.NotEq: ast.Eq, ast.Is: ast.IsNot, ast.IsNot: ast.Is, ast.In: ast.NotIn, ast.NotIn: ast.In}


def seg(node):
    return node.lineno, node.col_offset, node.end_lineno, node.end_col_offset


def mutants_of(path, rel):
    src = open(path, encoding='utf8').read()
    try:
        tree = ast.parse(src)
    except SyntaxError:
        return []
    out = []

    def add(node, new_node_or_text, kind, descr):
        text = new_node_or_text if isinstance(new_node_or_text, str) else ast.unparse(new_node_or_text)
        out.append(Mut(rel, *seg(node), text, kind, 'L%d %s' % (node.lineno, descr)))

    parents = {}
    for p in ast.walk(tree):
        for c in ast.iter_child_nodes(p):
            parents[c] = p

    def in_function(n):
        while n in parents:
            n = parents[n]
            if isinstance(n, (ast.FunctionDef, ast.AsyncFunctionDef)):
                return n
        return None

    for n in ast.walk(tree):
        fn = in_function(n)
        where = fn.name if fn else '<module>'
        if isinstance(n, (ast.If, ast.While)) and fn is not None:
            t = n.test
            add(t, '(not (%s))' % ast.unparse(t), 'NEG', '%s: negate test `%s`' % (where, ast.unparse(t)[:60]))
        elif isinstance(n, ast.IfExp) and fn is not None:
            add(n.test, '(not (%s))' % ast.unparse(n.test), 'NEG', '%s: negate `%s`' % (where, ast.unparse(n.test)[:60]))
        elif isinstance(n, ast.Compare) and len(n.ops) == 1 and type(n.ops[0]) in CMP_SWAP and fn is not None:
            new = ast.Compare(left=n.left, ops=[CMP_SWAP[type(n.ops[0])]()], comparators=n.comparators)
            add(n, '(%s)' % ast.unparse(new), 'CMP', '%s: `%s` -> `%s`' % (where, ast.unparse(n)[:50], ast.unparse(new)[:50]))
        elif isinstance(n, ast.BoolOp) and fn is not None:
            new = ast.BoolOp(op=ast.Or() if isinstance(n.op, ast.And) else ast.And(), values=n.values)
            add(n, '(%s)' % ast.unparse(new), 'BOOL', '%s: and<->or in `%s`' % (where, ast.unparse(n)[:60]))
        elif isinstance(n, ast.Expr) and isinstance(n.value, ast.Call) and fn is not None:
            body_owner = parents.get(n)
            add(n, 'pass', 'DELCALL', '%s: delete `%s`' % (where, ast.unparse(n)[:70]))
        elif isinstance(n, ast.Call) and fn is not None:
            names = [a for a in n.args if isinstance(a, (ast.Name, ast.Attribute))]
            if len(n.args) >= 2 and len(names) >= 2 and not any(isinstance(a, ast.Starred) for a in n.args):
                i = n.args.index(names[0]); j = n.args.index(names[1])
                args = list(n.args); args[i], args[j] = args[j], args[i]
                new = ast.Call(func=n.func, args=args, keywords=n.keywords)
                add(n, new, 'SWAPARG', '%s: swap args %d,%d of `%s`' % (where, i, j, ast.unparse(n.func)[:50]))
            for k in n.keywords:
                if k.arg and isinstance(k.value, ast.Constant) and isinstance(k.value.value, bool):
                    add(k.value, str(not k.value.value), 'CONST', '%s: %s=%s flipped' % (where, k.arg, k.value.value))
        elif isinstance(n, ast.Return) and n.value is not None and fn is not None:
            v = n.value
            if isinstance(v, ast.Constant) and isinstance(v.value, bool):
                add(v, str(not v.value), 'CONST', '%s: return %s flipped' % (where, v.value))
            elif isinstance(v, ast.Constant) and isinstance(v.value, int):
                add(v, str(v.value + 1), 'CONST', '%s: return %s + 1' % (where, v.value))
        elif isinstance(n, ast.BinOp) and isinstance(n.op, (ast.Add, ast.Sub)) and fn is not None \
                and isinstance(n.right, ast.Constant) and isinstance(n.right.value, int):
            new = ast.BinOp(left=n.left, op=ast.Sub() if isinstance(n.op, ast.Add) else ast.Add(), right=n.right)
            add(n, '(%s)' % ast.unparse(new), 'ARITH', '%s: `%s` -> `%s`' % (where, ast.unparse(n)[:40], ast.unparse(new)[:40]))
        elif isinstance(n, (ast.Dict,)) and len(n.keys) >= 2 and all(k is not None for k in n.keys):
            new = ast.Dict(keys=n.keys[:-1], values=n.values[:-1])
            add(n, new, 'DROPELEM', '%s: drop last entry of dict literal (key %s)' % (where, ast.unparse(n.keys[-1])[:40]))
        elif isinstance(n, (ast.List, ast.Tuple, ast.Set)) and len(n.elts) >= 2 and isinstance(getattr(n, 'ctx', ast.Load()), ast.Load) \
                and not isinstance(parents.get(n), (ast.Subscript, ast.Compare, ast.ExceptHandler)):
            if isinstance(n, ast.Tuple):
                continue  # tuples are too often positional records: dropping crashes at once
            new = type(n)(elts=n.elts[:-1], **({'ctx': ast.Load()} if not isinstance(n, ast.Set) else {}))
            add(n, new, 'DROPELEM', '%s: drop last element of `%s`' % (where, ast.unparse(n)[:50]))
        elif isinstance(n, ast.Raise) and fn is not None and n.exc is not None:
            add(n, 'pass', 'DELRAISE', '%s: delete `%s`' % (where, ast.unparse(n)[:70]))
        elif isinstance(n, ast.Assign) and fn is not None and len(n.targets) == 1 \
                and isinstance(n.targets[0], ast.Attribute) and isinstance(n.targets[0].value, ast.Name) \
                and n.targets[0].value.id == 'self' and fn.name != '__init__':
            add(n, 'pass', 'DELSTORE', '%s: delete `%s`' % (where, ast.unparse(n)[:70]))
    # check each mutant parses
    ok = []
    for m in out:
        try:
            ast.parse(m.apply(src))
            ok.append(m)
        except SyntaxError:
            pass
    return ok


# ---------------------------------------------------------------- running

def test_package_of(rel):
    """nearest z_package_suite of the test tree for src/exactly_lib/a/b/c.py (not above depth 2)"""
    parts = rel.split('/')[2:-1]  # below exactly_lib
    while len(parts) >= 2:
        p = os.path.join(REPO, 'test', 'exactly_lib_test', *parts, 'z_package_suite.py')
        if os.path.isfile(p):
            return 'exactly_lib_test.' + '.'.join(parts) + '.z_package_suite'
        parts = parts[:-1]
    return None


RUNNER = r'''
import sys, unittest, importlib, os, io
wt, mod = sys.argv[1], sys.argv[2]
sys.path[:0] = [os.path.join(wt, 'src'), os.path.join(wt, 'test')]
os.chdir(os.path.join(wt, 'test'))
import warnings; warnings.simplefilter('ignore')
try:
    m = importlib.import_module(mod)
    s = m.suite()
except BaseException as e:
    print('RESULT import-error %s' % type(e).__name__); sys.exit(0)
r = unittest.TextTestRunner(stream=io.StringIO(), verbosity=0).run(s)
print('RESULT %d %d %d' % (r.testsRun, len(r.failures), len(r.errors)))
'''


def run_tests(wt, pkg, timeout=420):
    try:
        r = sh(['/venv/bin/python', '-W', 'ignore', '-c', RUNNER, wt, pkg], timeout=timeout)
    except subprocess.TimeoutExpired:
        return 'timeout'
    for l in r.stdout.splitlines():
        if l.startswith('RESULT '):
            return l[7:]
    return 'crash'


def one(job):
    pid, m, do_tests, base_tests = job
    all_checks = ALL_CHECKS
    wt = tempfile.mkdtemp(prefix='mutsv-', dir='/tmp')
    os.rmdir(wt)
    evd = tempfile.mkdtemp(prefix='mutsvev-', dir='/tmp')
    try:
        sh(['git', '-C', REPO, 'worktree', 'add', '-q', '--detach', wt, 'HEAD'])
        p = os.path.join(wt, m.file)
        src = open(p, encoding='utf8').read()
        open(p, 'w', encoding='utf8').write(m.apply(src))
        r = sh(['/venv/bin/python', '-c', 'import sys; sys.path.insert(0, %r); import importlib; importlib.import_module(%r)'
                % (os.path.join(wt, 'src'), m.file[4:-3].replace('/', '.'))], timeout=120)
        if r.returncode:
            return pid, m, 'import-fails', '', ''
        props_to_run = all_checks if all_checks else [pid]
        worst = 0
        rules = set()
        ae = []
        for q in props_to_run:
            r = sh([os.path.join(VERIF, 'verify'), 'check', q, '--repo', wt, '--evidence-dir', evd, '--replay-dir', evd],
                   timeout=900)
            rules |= {l.split(': ', 1)[1].split(' / ')[0] for l in r.stdout.splitlines()
                      if l.startswith('src/') and ': ' in l and ' / ' in l}
            ae += [l for l in r.stdout.splitlines() if l.startswith('ANALYSIS-ERROR')][:1]
            if r.returncode == 1:
                worst = 1
            elif r.returncode == 2 and worst == 0:
                worst = 2
        rules = sorted(rules)
        chk = {0: 'silent', 1: 'REPORTED ' + ','.join(rules), 2: 'exit2 ' + (ae[0][:100] if ae else '')}.get(worst, 'exit%d' % worst)
        tests = ''
        if do_tests:
            pkg = test_package_of(m.file)
            if pkg:
                res = run_tests(wt, pkg)
                tests = 'same' if res == base_tests.get(pkg) else 'KILLED(%s vs %s)' % (res, base_tests.get(pkg))
            else:
                tests = 'no-pkg'
        return pid, m, chk, tests, ''
    except subprocess.TimeoutExpired:
        return pid, m, 'check-timeout', '', ''
    finally:
        sh(['git', '-C', REPO, 'worktree', 'remove', '--force', wt])
        shutil.rmtree(wt, ignore_errors=True)
        shutil.rmtree(evd, ignore_errors=True)


ALL_CHECKS = []


def main():
    global ALL_CHECKS
    a = sys.argv[1:]
    def opt(name, default):
        return a[a.index(name) + 1] if name in a else default
    props = opt('--props', None)
    per_file = int(opt('--per-file', '2'))
    per_prop = int(opt('--per-prop', '16'))
    jobs = int(opt('--jobs', '8'))
    seed = int(opt('--seed', '1'))
    do_tests = '--no-tests' not in a
    out_name = opt('--out', 'MUTATION_SURVEY.md')
    rnd = random.Random(seed)
    only = opt('--only', None)   # comma separated `file-basename:Lnn:KIND`
    only = set(only.split(',')) if only else None
    P = {json.loads(l)['id']: json.loads(l) for l in open(os.path.join(VERIF, 'properties.jsonl'))}
    claimed = [c['property_id'] for c in json.load(open(os.path.join(VERIF, 'MANIFEST.json')))['checks']]
    todo = []
    for pid in (props.split(',') if props else claimed):
        ms = []
        for f in P[pid]['anchors']['files']:
            p = os.path.join(REPO, f)
            if not (os.path.isfile(p) and f.endswith('.py') and f.startswith('src/')):
                continue
            cand = mutants_of(p, f)
            rnd.shuffle(cand)
            # spread over kinds
            seen, pick = set(), []
            for m in cand:
                if m.kind not in seen:
                    pick.append(m); seen.add(m.kind)
            for m in cand:
                if m not in pick:
                    pick.append(m)
            ms += pick[:per_file]
        rnd.shuffle(ms)
        if only is not None:
            ms = [m for m in ms if '%s:%s:%s' % (os.path.basename(m.file), m.descr.split(' ')[0], m.kind) in only]
        todo += [(pid, m) for m in ms[:per_prop]]
    if '--all-checks' in a:
        ALL_CHECKS = claimed
    base_tests = {}
    if do_tests:
        pkgs = sorted({test_package_of(m.file) for _, m in todo} - {None})
        with ThreadPoolExecutor(max_workers=jobs) as ex:
            for pkg, res in zip(pkgs, ex.map(lambda k: run_tests(REPO, k), pkgs)):
                base_tests[pkg] = res
        print('baseline of test packages:', json.dumps(base_tests, indent=1))
    with ThreadPoolExecutor(max_workers=jobs) as ex:
        results = list(ex.map(one, [(pid, m, do_tests, base_tests) for pid, m in todo]))
    lines = ['# Mutation survey (development aid; seed %d)' % seed, '',
             '| property | file | kind | mutant | check | upstream unittests |', '|---|---|---|---|---|---|']
    summ = {}
    for pid, m, chk, tests, _ in results:
        lines.append('| %s | %s | %s | %s | %s | %s |' % (pid, os.path.basename(m.file), m.kind,
                                                       m.descr.replace('|', '\\|'), chk, tests))
        k = (chk.split(' ')[0], tests.split('(')[0])
        summ[k] = summ.get(k, 0) + 1
    lines += ['', 'summary (check, tests) -> count:'] + ['* %s / %s: %d' % (k[0], k[1], v) for k, v in sorted(summ.items())]
    open(os.path.join(VERIF, 'seeded', out_name), 'w').write('\n'.join(lines) + '\n')
    print('\n'.join(lines))


if __name__ == '__main__':
    main()
