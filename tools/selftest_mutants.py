#!/venv/bin/python
"""Self-test of checks by own-made mutants (complements the sub-agent seeds of seeded/): each mutant is one textual
edit of a scratch worktree of /repo (never of /repo itself) that breaks a documented behaviour while the pinned test
suite still passes; the named check must report a violation of the named rule, and be silent without the edit.

usage: tools/selftest_mutants.py [PROPERTY ...]      (default: all)"""
import json
import os
import shutil
import subprocess
import sys
import tempfile

VERIF = os.path.dirname(os.path.dirname(os.path.abspath(__file__)))
REPO = '/repo'
SRC = 'src/exactly_lib/'

# (id, property, rule expected, file, old, new)
MUTANTS = [
    ('C05-m01', 'C05', 'C05-a', SRC + 'impls/types/string_matcher/impl/emptiness.py',
     "        if first_line != '':", "        if first_line.strip() != '':"),
    ('C05-m02', 'C05', 'C05-b', SRC + 'impls/types/string_matcher/impl/equality.py',
     "    return len(operand) + 1 + custom_details.STRING__EXTRA_TO_READ_FOR_ERROR_MESSAGES",
     "    return len(operand)"),
    ('C05-m03', 'C05', 'C05-b', SRC + 'impls/types/string_matcher/impl/equality.py',
     "        contents_are_equal = expected == actual_header\n",
     "        contents_are_equal = expected == actual_header.rstrip()\n"),
    ('C05-m04', 'C05', 'C05-b', SRC + 'impls/types/string_matcher/impl/equality.py',
     "                    expected_chunk = expected_file.read(_COMPARISON_BUFFER_SIZE)",
     "                    expected_chunk = expected_file.read(_COMPARISON_BUFFER_SIZE // 2)"),
    ('C05-m05', 'C05', 'C05-b', SRC + 'impls/types/string_matcher/impl/equality.py',
     "                    if actual_chunk != expected_chunk:\n                        return False\n                    if not actual_chunk:\n                        return True",
     "                    if not actual_chunk:\n                        return True\n                    if actual_chunk != expected_chunk:\n                        return False"),
    ('C05-m06', 'C05', 'C05-b', SRC + 'impls/types/string_matcher/impl/equality.py',
     "        expected_header, expected_may_be_longer = self._freeze_and_read_expected_header(\n            _min_num_chars_to_read(actual_str))",
     "        expected_header, expected_may_be_longer = self._freeze_and_read_expected_header(\n            _min_num_chars_to_read(actual_str[:100]))"),
    ('C05-m07', 'C05', 'C05-c', SRC + 'impls/types/matcher/impls/matches_regex.py',
     "            return self._pattern.fullmatch(model)", "            return self._pattern.match(model)"),
    ('C05-m08', 'C05', 'C05-c', SRC + 'impls/types/string_matcher/impl/matches.py',
     "        return model.contents().as_str", "        return model.contents().as_str.rstrip('\\n')"),
    ('C05-m09', 'C05', 'C05-d', SRC + 'impls/types/string_matcher/impl/num_lines.py',
     "        ret_val = 0\n", "        ret_val = -1\n"),
    ('C05-m10', 'C05', 'C05-e', SRC + 'impls/types/line_matcher/model_construction.py',
     "    return enumerate((l.rstrip('\\n') for l in lines),\n                     FIRST_LINE_NUMBER)",
     "    return enumerate((l.rstrip() for l in lines),\n                     FIRST_LINE_NUMBER)"),
    ('C05-m11', 'C05', 'C05-e', SRC + 'impls/types/line_matcher/model_construction.py',
     "        for line_num, original in enumerate(lines, FIRST_LINE_NUMBER)",
     "        for line_num, original in enumerate(lines)"),
    ('C05-m12', 'C05', 'C05-f', SRC + 'impls/types/string_matcher/impl/on_transformed.py',
     "        result_on_transformed = self._on_transformed.matches_w_trace(transformed_model)",
     "        result_on_transformed = self._on_transformed.matches_w_trace(model)"),
    ('C05-m13', 'C05', 'C05-g', SRC + 'impls/types/string_transformer/impl/case_converters.py',
     "                    names.CHARACTER_CASE_TO_LOWER_OPTION_NAME,\n                    str.lower,",
     "                    names.CHARACTER_CASE_TO_LOWER_OPTION_NAME,\n                    str.casefold,"),
    ('C05-m14', 'C05', 'C05-h', SRC + 'impls/types/string_transformer/impl/strip_space.py',
     "    mb_last = line_before_empty_lines_list.rstrip()", "    mb_last = line_before_empty_lines_list.strip()"),
    ('C05-m15', 'C05', 'C05-h', SRC + 'impls/types/string_transformer/impl/strip_space.py',
     "                    names.STRIP_TRAILING_NEW_LINES_OPTION_NAME,\n                    _strip_trailing_new_lines,",
     "                    names.STRIP_TRAILING_NEW_LINES_OPTION_NAME,\n                    _strip_trailing_space,"),
    ('C05-m16', 'C05', 'C05-i', SRC + 'impls/types/string_transformer/impl/replace/impl.py',
     "            if preserve_new_lines\n", "            if not preserve_new_lines\n"),
    ('C05-m17', 'C05', 'C05-i', SRC + 'impls/types/string_transformer/impl/replace/impl.py',
     "            return self._sub(line[:-1]) + '\\n'", "            return self._sub(line.rstrip()) + '\\n'"),
    ('C05-m18', 'C05', 'C05-i', SRC + 'impls/types/string_transformer/impl/replace/impl.py',
     "            self.replacer(line[0])\n            if self.selector.matches_w_trace(line[1]).value\n            else\n            line[0]",
     "            self.replacer(line[0])\n            if self.selector.matches_w_trace(line[1]).value\n            else\n            line[1][1]"),
    ('C05-m19', 'C05', 'C05-j', SRC + 'impls/types/string_transformer/impl/filter/line_matcher.py',
     "            if self._line_matcher.matches_w_trace(line_matcher_model).value",
     "            if not self._line_matcher.matches_w_trace(line_matcher_model).value"),
    ('C05-m20', 'C05', 'C05-l', SRC + 'impls/types/string_matcher/impl/on_transformed.py',
     "        return StringMatcherWithTransformation(self._transformer.primitive(environment),\n                                               self._on_transformed.primitive(environment),",
     "        return StringMatcherWithTransformation(self._on_transformed.primitive(environment),\n                                               self._transformer.primitive(environment),"),
    ('C05-m21', 'C05', 'C05-m', SRC + 'util/str_/read_lines.py',
     "    for line in lines:\n        actual_lines.append(line)\n        actual_read += len(line)",
     "    for line in lines:\n        actual_read += len(line)\n        if actual_read > min_num_chars_to_read:\n            break\n        actual_lines.append(line)"),
    ('C05-m22', 'C05', 'C05-n', SRC + 'impls/types/string_transformer/impl/strip_space.py',
     "            while num_empty_lines_skipped != 0:", "            while num_empty_lines_skipped > 1:"),
    ('C05-m23', 'C05', 'C05-n', SRC + 'impls/types/string_transformer/impl/strip_space.py',
     "    if line_before_counted_empty_lines[-1] == '\\n':\n        last_line = line_before_counted_empty_lines[:-1]\n    else:\n        last_line = line_before_counted_empty_lines",
     "    last_line = line_before_counted_empty_lines[:-1]"),
    ('C05-m24', 'C05', 'C05-n', SRC + 'impls/types/string_transformer/impl/strip_space.py',
     "    yield non_empty_line.rstrip()\n", "    yield non_empty_line.strip()\n"),
    ('C05-m25', 'C05', 'C05-n', SRC + 'impls/types/string_transformer/impl/strip_space.py',
     "            yield line_before_empty_lines_list\n            for empty_line in empty_lines_skipped:\n                yield empty_line\n",
     "            yield line_before_empty_lines_list\n"),
    ('C05-m26', 'C05', 'C05-n', SRC + 'impls/types/string_transformer/impl/strip_space.py',
     "    for non_empty_line in lines:\n        if not non_empty_line.isspace():\n            break\n    else:\n        return\n",
     "    for non_empty_line in lines:\n        break\n    else:\n        return\n"),
    ('C14-m01', 'C14', 'C14-h', SRC + 'util/file_utils/spooled_file.py',
     "                    self._rollover()\n                    self._file.writelines(lines)\n",
     "                    self._rollover()\n"),
    ('C14-m02', 'C14', 'C14-h', SRC + 'util/file_utils/spooled_file.py',
     "            rv = file.write(s)\n            self._check(file)\n            return rv",
     "            self._check(file)\n            rv = file.write(s)\n            return rv"),
]


def run(cmd, **kw):
    return subprocess.run(cmd, stdout=subprocess.PIPE, stderr=subprocess.STDOUT, text=True, **kw)


def main():
    want = set(sys.argv[1:])
    wt = tempfile.mkdtemp(prefix='mutants-', dir='/tmp')
    os.rmdir(wt)
    r = run(['git', '-C', REPO, 'worktree', 'add', '--detach', wt, 'HEAD'])
    if r.returncode:
        print(r.stdout)
        return 2
    bad = 0
    ev = tempfile.mkdtemp(prefix='mutants-ev-', dir='/tmp')
    try:
        for mid, prop, rule, path, old, new in MUTANTS:
            if old is None or (want and prop not in want and mid not in want):
                continue
            p = os.path.join(wt, path)
            src = open(p).read()
            if src.count(old) != 1:
                print('%s: ANCHOR of the mutant not found exactly once (%d) - update the mutant' % (mid, src.count(old)))
                bad += 1
                continue
            open(p, 'w').write(src.replace(old, new, 1))
            r = run([os.path.join(VERIF, 'verify'), 'check', prop, '--repo', wt, '--evidence-dir', ev, '--replay-dir', ev])
            open(p, 'w').write(src)
            hit = [l for l in r.stdout.splitlines() if (rule + ' /') in l]
            ok = r.returncode == 1 and hit
            print('%s %s: exit %d, %s' % ('ok  ' if ok else 'MISS', mid, r.returncode,
                                          hit[0][:150] if hit else (r.stdout.strip().splitlines() or ['?'])[-1][:150]))
            if not ok:
                bad += 1
        # silent without an edit
        for prop in sorted({m[1] for m in MUTANTS if not want or m[1] in want or m[0] in want}):
            r = run([os.path.join(VERIF, 'verify'), 'check', prop, '--repo', wt, '--evidence-dir', ev, '--replay-dir', ev])
            print('%s %s on the unchanged tree: exit %d' % ('ok  ' if r.returncode == 0 else 'BAD ', prop, r.returncode))
            if r.returncode != 0:
                bad += 1
    finally:
        run(['git', '-C', REPO, 'worktree', 'remove', '--force', wt])
        run(['git', '-C', REPO, 'worktree', 'prune'])
        shutil.rmtree(ev, ignore_errors=True)
    print('mutants not reported: %d' % bad)
    return 1 if bad else 0


if __name__ == '__main__':
    sys.exit(main())
