#!/bin/sh
# usage: collect_r2.sh Cnn   -- copies /tmp/wt/r6-Cnn/_seeded6/<n> to seeded/r6-Cnn-<n> and confirms + checks each
p=$1
for n in 1 2 3; do
  src=/tmp/wt/r6-$p/_seeded6/$n
  [ -f $src/patch.diff ] || continue
  dst=/verif/seeded/r6-$p-$n
  mkdir -p $dst
  cp $src/patch.diff $dst/
  for f in demo.py demo.sh meta.json; do [ -f $src/$f ] && cp $src/$f $dst/; done
  echo "=== r6-$p-$n"
  /venv/bin/python /verif/tools/seedtest.py $dst --props $p 2>&1 | grep -v demo_tail | grep -E '"demo_clean"|"baseline"|"demo_patched"|"exit"|src/|DEMO FAILS|PATCH DOES' | cut -c1-330
done
git -C /tmp/wt/r6-$p status --short | grep -v _seeded6 | head -3
