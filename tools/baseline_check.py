#!/venv/bin/python
"""Run the pinned baseline suite in a given checkout (default /repo) and report
which of BASELINE.json's stable_pass tests do not pass.  Development helper
(used to confirm that `fix:` commits and seeded changes keep the pinned tests
green); never part of a property check."""
import json, subprocess, sys, tempfile, os, xml.etree.ElementTree as ET

def main():
    repo = sys.argv[1] if len(sys.argv) > 1 else '/repo'
    base = json.load(open('/root/.vp/BASELINE.json'))
    stable = set(base['stable_pass'])
    with tempfile.TemporaryDirectory() as d:
        out = os.path.join(d, 'r.xml')
        env = dict(os.environ, PYTHONPATH=os.path.join(repo, 'src'))
        subprocess.run(['/venv/bin/python', '-m', 'pytest', '-q', '-p', 'no:cacheprovider',
                        '--timeout=900', '--continue-on-collection-errors', '--junitxml=' + out],
                       cwd=repo, env=env, stdout=subprocess.DEVNULL, stderr=subprocess.DEVNULL)
        passed = set()
        for tc in ET.parse(out).getroot().iter('testcase'):
            if not any(c.tag in ('failure', 'error', 'skipped') for c in tc):
                passed.add('%s::%s' % (tc.get('classname'), tc.get('name')))
    missing = sorted(stable - passed)
    print('stable_pass=%d passed_now=%d missing=%d' % (len(stable), len(passed), len(missing)))
    for m in missing:
        print('  NOT PASSING:', m)
    return 1 if missing else 0

if __name__ == '__main__':
    sys.exit(main())
