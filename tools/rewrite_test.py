#!/venv/bin/python
"""Development gate: behaviour-preserving rewrites of the whole of src/exactly_lib must leave every check silent.

usage: rewrite_test.py [T0,T1,...]   (default: all)

  T0  parse + ast.unparse round trip (layout, comments, line numbers change; nothing else)
  T1  every local variable of every function renamed (alpha conversion)
  T2  `return <call>` rewritten to `<tmp> = <call>; return <tmp>`
  T3  `return a if c else b` rewritten to an if / else statement
  T4  keyword arguments of calls reordered (reversed)
  T5  methods of every class sorted by name
  T6  operands of == / != swapped
  T8  statement-level list comprehensions inside functions expanded to loops with append
  T7  `if not c: A else: B` rewritten to `if c: B else: A` (statements and conditional expressions)

Each variant is written to a scratch worktree under /tmp (removed afterwards), the pinned baseline is run on it (the
rewrite must not break the program) and then every claimed check; any VIOLATION is a false alarm of the checker, any
ANALYSIS-ERROR an idiom the checker does not understand."""
import ast, json, os, subprocess, sys, tempfile, shutil, builtins

VERIF = os.path.dirname(os.path.dirname(os.path.abspath(__file__)))


def sh(cmd, **kw):
    return subprocess.run(cmd, shell=isinstance(cmd, str), stdout=subprocess.PIPE, stderr=subprocess.STDOUT,
                          universal_newlines=True, **kw)


class _Scope(ast.NodeVisitor):
    """names a function binds itself (assignment / for / with / except / comprehension-free), excluding parameters,
    global / nonlocal names and names also used by nested functions or classes"""

    def __init__(self, fn):
        self.fn = fn
        self.bound = set()
        self.excluded = set()
        a = fn.args
        for p in a.posonlyargs + a.args + a.kwonlyargs + [x for x in (a.vararg, a.kwarg) if x]:
            self.excluded.add(p.arg)
        for s in fn.body:
            self.visit(s)

    def visit_FunctionDef(self, n):
        if hasattr(n, 'name'):
            self.excluded.add(n.name)
        for x in ast.walk(n):
            if isinstance(x, ast.Name):
                self.excluded.add(x.id)
            if isinstance(x, ast.arg):
                self.excluded.add(x.arg)

    visit_AsyncFunctionDef = visit_FunctionDef
    visit_Lambda = visit_FunctionDef

    def visit_ClassDef(self, n):
        self.excluded.add(n.name)
        for x in ast.walk(n):
            if isinstance(x, ast.Name):
                self.excluded.add(x.id)

    def visit_Global(self, n):
        self.excluded.update(n.names)

    visit_Nonlocal = visit_Global

    def visit_Import(self, n):
        for a in n.names:
            self.excluded.add((a.asname or a.name).split('.')[0])

    visit_ImportFrom = visit_Import

    def visit_Name(self, n):
        if isinstance(n.ctx, (ast.Store, ast.Del)):
            self.bound.add(n.id)

    def visit_ExceptHandler(self, n):
        if n.name:
            self.excluded.add(n.name)
        self.generic_visit(n)

    def _comp(self, n):
        # comprehension targets live in their own scope: leave every name they bind alone
        for g in n.generators:
            for x in ast.walk(g.target):
                if isinstance(x, ast.Name):
                    self.excluded.add(x.id)
        self.generic_visit(n)

    visit_ListComp = visit_SetComp = visit_DictComp = visit_GeneratorExp = _comp


class T1(ast.NodeTransformer):
    def _fn(self, n):
        self.generic_visit(n)
        sc = _Scope(n)
        names = {x for x in sc.bound - sc.excluded if not x.startswith('__') and not hasattr(builtins, x)}
        if not names:
            return n

        class R(ast.NodeTransformer):
            def visit_FunctionDef(s, x):
                return x

            visit_AsyncFunctionDef = visit_Lambda = visit_ClassDef = visit_FunctionDef

            def visit_Name(s, x):
                if x.id in names:
                    return ast.copy_location(ast.Name(id=x.id + '_rn', ctx=x.ctx), x)
                return x

        n.body = [R().visit(s) for s in n.body]
        return n

    visit_FunctionDef = visit_AsyncFunctionDef = _fn


class T2(ast.NodeTransformer):
    counter = 0

    def _body(self, stmts):
        out = []
        for s in stmts:
            if isinstance(s, ast.Return) and isinstance(s.value, ast.Call):
                T2.counter += 1
                name = 'ret_val_tmp_%d' % T2.counter
                out.append(ast.Assign(targets=[ast.Name(id=name, ctx=ast.Store())], value=s.value, lineno=s.lineno))
                out.append(ast.Return(value=ast.Name(id=name, ctx=ast.Load())))
            else:
                out.append(s)
        return out

    def generic_visit(self, node):
        super().generic_visit(node)
        for f in ('body', 'orelse', 'finalbody'):
            v = getattr(node, f, None)
            if isinstance(v, list) and v and isinstance(v[0], ast.stmt) and not isinstance(node, (ast.Module, ast.ClassDef)):
                setattr(node, f, self._body(v))
        return node

    def visit_Lambda(self, n):
        return n


class T3(ast.NodeTransformer):
    def generic_visit(self, node):
        super().generic_visit(node)
        for f in ('body', 'orelse', 'finalbody'):
            v = getattr(node, f, None)
            if isinstance(v, list) and v and isinstance(v[0], ast.stmt):
                out = []
                for s in v:
                    if isinstance(s, ast.Return) and isinstance(s.value, ast.IfExp):
                        out.append(ast.If(test=s.value.test, body=[ast.Return(value=s.value.body)],
                                          orelse=[ast.Return(value=s.value.orelse)]))
                    else:
                        out.append(s)
                setattr(node, f, out)
        return node


class T4(ast.NodeTransformer):
    def visit_Call(self, n):
        self.generic_visit(n)
        if len(n.keywords) > 1 and all(k.arg for k in n.keywords):
            n.keywords = list(reversed(n.keywords))
        return n


class T5(ast.NodeTransformer):
    """methods of a class sorted by name (class-level assignments and the docstring keep their place at the top)"""

    def visit_ClassDef(self, n):
        self.generic_visit(n)
        funcs = [s for s in n.body if isinstance(s, (ast.FunctionDef, ast.AsyncFunctionDef))]
        others = [s for s in n.body if not isinstance(s, (ast.FunctionDef, ast.AsyncFunctionDef))]
        # only when no class-level statement follows a method (a later assignment may refer to a method)
        last_other = max([n.body.index(s) for s in others], default=-1)
        first_func = min([n.body.index(s) for s in funcs], default=len(n.body))
        names = [f.name for f in funcs]
        if last_other < first_func and len(set(names)) == len(names):
            n.body = others + sorted(funcs, key=lambda f: f.name)
        return n


class T6(ast.NodeTransformer):
    """`a == b` -> `b == a`, `a != b` -> `b != a` (single comparison)"""

    def visit_Compare(self, n):
        self.generic_visit(n)
        if len(n.ops) == 1 and isinstance(n.ops[0], (ast.Eq, ast.NotEq)):
            n.left, n.comparators = n.comparators[0], [n.left]
        return n


class T7(ast.NodeTransformer):
    """`if not c: A else: B` -> `if c: B else: A`"""

    def visit_If(self, n):
        self.generic_visit(n)
        if n.orelse and isinstance(n.test, ast.UnaryOp) and isinstance(n.test.op, ast.Not) \
                and not (len(n.orelse) == 1 and isinstance(n.orelse[0], ast.If)):
            n.test, n.body, n.orelse = n.test.operand, n.orelse, n.body
        return n

    def visit_IfExp(self, n):
        self.generic_visit(n)
        if isinstance(n.test, ast.UnaryOp) and isinstance(n.test.op, ast.Not):
            n.test, n.body, n.orelse = n.test.operand, n.orelse, n.body
        return n


class T8(ast.NodeTransformer):
    """inside functions: `x = [E for t in XS]` / `return [E for t in XS]` (one generator, no filter) expanded to a loop
    with append"""
    counter = 0

    def _expand(self, comp):
        T8.counter += 1
        name = 'collected_%d' % T8.counter
        g = comp.generators[0]
        init = ast.Assign(targets=[ast.Name(id=name, ctx=ast.Store())], value=ast.List(elts=[], ctx=ast.Load()), lineno=0)
        loop = ast.For(target=g.target, iter=g.iter, orelse=[], lineno=0, body=[
            ast.Expr(value=ast.Call(func=ast.Attribute(value=ast.Name(id=name, ctx=ast.Load()), attr='append', ctx=ast.Load()),
                                    args=[comp.elt], keywords=[]))])
        return name, [init, loop]

    @staticmethod
    def _simple(v):
        return isinstance(v, ast.ListComp) and len(v.generators) == 1 and not v.generators[0].ifs \
            and not v.generators[0].is_async and not any(isinstance(x, (ast.Lambda, ast.ListComp, ast.GeneratorExp, ast.NamedExpr))
                                                         for x in ast.walk(v.elt))

    def _block(self, stmts):
        out = []
        for s in stmts:
            if isinstance(s, ast.Return) and self._simple(s.value):
                name, pre = self._expand(s.value)
                out += pre + [ast.Return(value=ast.Name(id=name, ctx=ast.Load()))]
            elif isinstance(s, ast.Assign) and self._simple(s.value):
                name, pre = self._expand(s.value)
                out += pre + [ast.Assign(targets=s.targets, value=ast.Name(id=name, ctx=ast.Load()), lineno=0)]
            else:
                out.append(s)
        return out

    def _fn(self, n):
        self.generic_visit(n)
        for node in ast.walk(n):
            if isinstance(node, (ast.ClassDef, ast.Lambda)):
                continue
            for f in ('body', 'orelse', 'finalbody'):
                v = getattr(node, f, None)
                if isinstance(v, list) and v and isinstance(v[0], ast.stmt) and not isinstance(node, ast.ClassDef):
                    setattr(node, f, self._block(v))
        return n

    visit_FunctionDef = visit_AsyncFunctionDef = _fn


TRANSFORMS = {'T8': T8, 'T0': None, 'T1': T1, 'T2': T2, 'T3': T3, 'T4': T4, 'T5': T5, 'T6': T6, 'T7': T7}


def rewrite_tree(root, tname):
    n = 0
    for dp, dn, fn in os.walk(os.path.join(root, 'src', 'exactly_lib')):
        for f in fn:
            if not f.endswith('.py'):
                continue
            p = os.path.join(dp, f)
            src = open(p, encoding='utf-8').read()
            import warnings
            with warnings.catch_warnings():
                warnings.simplefilter('ignore')
                tree = ast.parse(src)
            t = TRANSFORMS[tname]
            if t is not None:
                tree = t().visit(tree)
                ast.fix_missing_locations(tree)
            open(p, 'w', encoding='utf-8').write(ast.unparse(tree) + '\n')
            n += 1
    return n


def main():
    which = sys.argv[1].split(',') if len(sys.argv) > 1 else sorted(TRANSFORMS)
    man = json.load(open(os.path.join(VERIF, 'MANIFEST.json')))
    bad = 0
    for t in which:
        wt = tempfile.mkdtemp(prefix='rewrite-', dir='/tmp')
        os.rmdir(wt)
        evd = tempfile.mkdtemp(prefix='rewriteev-', dir='/tmp')
        try:
            sh(['git', '-C', '/repo', 'worktree', 'add', '-q', '--detach', wt, 'HEAD'])
            n = rewrite_tree(wt, t)
            b = sh(['/venv/bin/python', os.path.join(VERIF, 'tools', 'baseline_check.py'), wt])
            print('%s: %d modules rewritten; baseline: %s' % (t, n, b.stdout.strip().splitlines()[-1] if b.stdout.strip() else '?'))
            for chk in man['checks']:
                p = chk['property_id']
                r = sh([os.path.join(VERIF, 'verify'), 'check', p, '--repo', wt, '--evidence-dir', evd, '--replay-dir', evd])
                if r.returncode != 0:
                    bad += 1
                    lines = [l for l in r.stdout.splitlines() if l.startswith(('src/', 'ANALYSIS-ERROR'))]
                    print('  %s %s exit %d' % (t, p, r.returncode))
                    for l in lines[:6]:
                        print('      ' + l[:230])
        finally:
            sh(['git', '-C', '/repo', 'worktree', 'remove', '--force', wt])
            shutil.rmtree(wt, ignore_errors=True)
            shutil.rmtree(evd, ignore_errors=True)
    print('checks disturbed: %d' % bad)
    return 1 if bad else 0


if __name__ == '__main__':
    sys.exit(main())
