#!/venv/bin/python
"""Development gate: every `fix:` commit of /repo, reverse-applied on a scratch worktree, must make the check of
its property report a violation again (a fixed entry suppresses nothing), and the unchanged tree must be silent.
Scratch worktrees live under /tmp and are removed."""
import json, os, subprocess, sys, tempfile, shutil

VERIF = os.path.dirname(os.path.dirname(os.path.abspath(__file__)))
FIXES = [
    ('612c309', 'C09', 'D1 shlex commenters'),
    ('bac93fc', 'C16', 'D5 junit SYNTAX_ERROR'),
    ('7d7c1b0', 'C18', 'D7a eval exceptions'),
    ('189f161', 'C16', 'D9 suite glob pattern errors'),
    ('0b3063b', 'C14', 'D3 splitlines'),
    ('537c9db+7d34be7', 'C18', 'D7b replace template (with its follow-up)'),
    ('83ad2f4', 'C18', 'D8 empty glob pattern'),
    ('fb2ee40', 'C13', 'D2 inversion of hull'),
    ('6d2962e', 'C14', 'D4 byte comparison'),
    ('4b6fb93', 'C18', 'D10 form feed line IndexError'),
    ('537c9db', 'C18', 'D11 unknown group name in replacement'),
    ('e1e8052', 'C18', 'D12 integer too large for text'),
    ('d7fc2e4', 'C14', 'D13 spooled file rollover position', 'C14-e'),
    ('2b4e2ef+2afec72', 'C06', 'D14 line-leading && outside parentheses (with the later D15)'),
    ('2b4e2ef', 'C06', 'D15 operands inside parentheses'),
    ('8b7a4dd', 'C10', 'D16 flush before a process writes to the output file'),
    ('5780fb7', 'C10', 'D16b flush before a transforming process writes to the output file'),
    ('4cc3a30', 'C17', 'D17 line-nums range resolved once for all cases of a suite'),
    ('775fa4d', 'C18', 'D18 _hds of SDV validators never set'),
    ('ffb3fe6', 'C16', 'D19 suite file reference whose stat fails with another OSError than FileNotFoundError'),
]


def sh(cmd, **kw):
    return subprocess.run(cmd, shell=isinstance(cmd, str), stdout=subprocess.PIPE, stderr=subprocess.STDOUT,
                          universal_newlines=True, **kw)


def main():
    only = set(sys.argv[1:])
    bad = 0
    for entry in FIXES:
        commit, prop, what = entry[:3]
        want_rule = entry[3] if len(entry) > 3 else None
        if only and prop not in only and commit not in only:
            continue
        if not os.path.isfile(os.path.join(VERIF, 'sa', 'rules', prop + '.py')):
            print('SKIP  %s %s (%s): no check yet' % (commit, prop, what))
            continue
        wt = tempfile.mkdtemp(prefix='fixtest-', dir='/tmp')
        os.rmdir(wt)
        evd = tempfile.mkdtemp(prefix='fixev-', dir='/tmp')
        try:
            sh(['git', '-C', '/repo', 'worktree', 'add', '-q', '--detach', wt, 'HEAD'])
            for one in commit.split('+'):
                r = sh('git -C %s show %s | git -C %s apply -R' % (wt, one, wt))
                if r.returncode:
                    break
            if r.returncode:
                print('ERROR %s: cannot reverse-apply: %s' % (commit, r.stdout[-300:]))
                bad += 1
                continue
            r = sh([os.path.join(VERIF, 'verify'), 'check', prop, '--repo', wt, '--evidence-dir', evd, '--replay-dir', evd])
            fired = r.returncode == 1 and 'VIOLATION property=' + prop in r.stdout
            line = next((l for l in r.stdout.splitlines() if l.startswith('src/') and (want_rule is None or want_rule + ' /' in l)), '')
            if want_rule is not None and not line:
                fired = False
            print('%s %s %s (%s): exit %d  %s' % ('OK   ' if fired else 'MISS ', commit, prop, what, r.returncode, line[:160]))
            if not fired:
                bad += 1
        finally:
            sh(['git', '-C', '/repo', 'worktree', 'remove', '--force', wt])
            shutil.rmtree(wt, ignore_errors=True)
            shutil.rmtree(evd, ignore_errors=True)
    return 1 if bad else 0


if __name__ == '__main__':
    sys.exit(main())
