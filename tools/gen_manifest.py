#!/venv/bin/python
"""Regenerates /verif/MANIFEST.json from the table below (development helper)."""
import json
import os

VERIF = os.path.dirname(os.path.dirname(os.path.abspath(__file__)))

COMMON_NOTE = ('The check decides the listed structural clauses - each a necessary condition of the property - and not '
               'the behaviour over all inputs. Trusted base: CPython ast parser; the resolver / constant folder / path '
               'interpreter under /verif/sa; closed world = src/exactly_lib (third-party instructions and actors '
               'plugged in through the Python API are outside). Exit 2 (ANALYSIS-ERROR) when an anchor vanished or an '
               'idiom is not understood - never a silent pass.')

CLAIMED = {
    'C01': dict(
        technique='typestate / path enumeration over the executor (abstract interpretation with may-raise forks), '
                  'handler-table and decision-table extraction, argument-plumbing checks',
        text='All event traces of _PartialExecutor.execute (35 distinct; every phase step a may-raise point, double '
             'faults included) are enumerated from the source and checked for step order, completeness, halt at first '
             'failure, exactly-one cleanup iff the sandbox exists, the PreviousPhase argument, and the terminal '
             '(never PASS after a failure, earliest failure named, nothing escapes); the step runners are analysed for '
             'instruction order/halt (fold shape), failure-kind handler tables, value-based enum conversions, and every '
             'step site for step/executor/contents agreement; full execution for conf-phase-first and SKIP. '
             'This is universal over paths and fault combinations, which example tests cannot be.',
        design='DESIGN.md section 5, C01'),
    'C02': dict(
        technique='decision-table extraction by path-sensitive constant propagation; constant folding of the exit-value '
                  'tables; typestate analysis of the result reporters',
        text='translate_status, from_result and the CLI option selection are turned into complete decision tables over '
             'their finite enum domains and compared with the documented table (and with the table in the built-in '
             'help); _FOR_FULL_RESULT is folded and compared with the documented codes/identifiers for every verdict; '
             'each of the three reporters is analysed for every verdict x has-sandbox x processing status: which stream '
             'gets the identifier, what else goes to stdout, which value is returned, and that identifier and exit code '
             'come from one ExitValue.',
        design='DESIGN.md section 5, C02'),
}

NOT_APPLICABLE = {
    'C05': 'every clause is about the value of regex matching / text transformation / line counting on arbitrary '
           'text; no sound static argument in reach bounds those (DESIGN.md section 5, C05); the lazy-evaluation and '
           'quantifier shapes it shares with other properties are decided under C06-d and C15-c',
}

PENDING_REASON = 'check under construction in this round - not claimed until it is silent on the unchanged tree and self-tested'


def main():
    props = [json.loads(l) for l in open(os.path.join(VERIF, 'properties.jsonl'))]
    checks = []
    na = []
    for p in props:
        pid = p['id']
        if pid in CLAIMED:
            e = CLAIMED[pid]
            checks.append({
                'property_id': pid,
                'quick_cmd': './verify check %s --tier quick' % pid,
                'thorough_cmd': './verify check %s --tier thorough' % pid,
                'evidence_file': 'evidence/%s.json' % pid,
                'replay_cmd_template': './verify check %s --tier quick   # replay file {path} names rule, construct '
                                       'and location; the rule is re-run on the current tree' % pid,
                'engine': 'sa',
                'level_claimed': {'category': 'other', 'text': e['text'], 'design_ref': e['design']},
                'level_note': COMMON_NOTE + (' ' + e['note'] if e.get('note') else ''),
                'technique': 'static analysis: ' + e['technique'],
            })
        else:
            na.append({'property_id': pid, 'reason': NOT_APPLICABLE.get(pid, PENDING_REASON)})
    man = {
        'version': 1,
        'setup_cmd': './verify selfcheck',
        'hooks': {
            'guard': 'EMILKARLEN_EXACTLY_VERIF',
            'enable': 'no hooks: the checks are static analyses of /repo/src and instrument nothing; the guard is '
                      'unused. The only commits to /repo are the unguarded "fix:" repairs listed in known_findings.json',
            'baseline_off_cmd': 'cd /repo && /venv/bin/python -m pytest -ra -q -p no:cacheprovider --timeout=900 '
                                '--continue-on-collection-errors',
            'source_commits': [],
            'add_only': True,
        },
        'engines': [{
            'name': 'sa',
            'path': 'sa/',
            'serves_properties': sorted(CLAIMED),
            'kind_free_text': 'repository-specific static analyser on Python ast: module index + resolver + class '
                              'hierarchy, constant folder, syntax-directed path/typestate interpreter, who-may-call '
                              'queries; one rule module per property under sa/rules',
        }],
        'checks': checks,
        'not_applicable': na,
        'notes': 'Static analysis only: no check runs Exactly or its tests. Exit codes: 0 holds, 1 VIOLATION, '
                 '2 ANALYSIS-ERROR. See DESIGN.md.',
    }
    with open(os.path.join(VERIF, 'MANIFEST.json'), 'w') as f:
        json.dump(man, f, indent=1)
    print('checks:', [c['property_id'] for c in checks])


if __name__ == '__main__':
    main()
