#!/venv/bin/python
"""Regenerates /verif/MANIFEST.json from the table below (development helper)."""
import json
import os

VERIF = os.path.dirname(os.path.dirname(os.path.abspath(__file__)))

COMMON_NOTE = ('The check decides the listed structural clauses - each a necessary condition of the property - and not '
               'the behaviour over all inputs. Trusted base: CPython ast parser; the resolver / constant folder / path '
               'interpreter under /verif/sa; closed world = src/exactly_lib (third-party instructions and actors '
               'plugged in through the Python API are outside). Exit 2 (ANALYSIS-ERROR) when an anchor vanished or an '
               'idiom is not understood - never a silent pass.')

CLAIMED = {
    'C01': dict(
        technique='typestate / path enumeration over the executor (abstract interpretation with may-raise forks), '
                  'handler-table and decision-table extraction, argument-plumbing checks',
        text='All event traces of _PartialExecutor.execute (35 distinct; every phase step a may-raise point, double '
             'faults included) are enumerated from the source and checked for step order, completeness, halt at first '
             'failure, exactly-one cleanup iff the sandbox exists, the PreviousPhase argument, and the terminal '
             '(never PASS after a failure, earliest failure named, nothing escapes); the step runners are analysed for '
             'instruction order/halt (fold shape), failure-kind handler tables, value-based enum conversions, and every '
             'step site for step/executor/contents agreement; full execution for conf-phase-first and SKIP. '
             'This is universal over paths and fault combinations, which example tests cannot be. Also: when the assertion failed and a later step fails with an error, the result names the error (an error is never reported as a failed test); REC sweep over the data classes of `execution`.',
        design='DESIGN.md section 5, C01'),
    'C02': dict(
        technique='decision-table extraction by path-sensitive constant propagation; constant folding of the exit-value '
                  'tables; typestate analysis of the result reporters',
        text='translate_status, from_result and the CLI option selection are turned into complete decision tables over '
             'their finite enum domains and compared with the documented table (and with the table in the built-in '
             'help); _FOR_FULL_RESULT is folded and compared with the documented codes/identifiers for every verdict; '
             'each of the three reporters is analysed for every verdict x has-sandbox x processing status: which stream '
             'gets the identifier, what else goes to stdout, which value is returned, and that identifier and exit code '
             'come from one ExitValue. REC sweep over the data classes of `processing`, the exit-value and result records. A preprocessor that cannot be started is PRE_PROCESS_ERROR (handlers cover OSError and ValueError); blank --actor / --preprocessor values are invalid usage.',
        design='DESIGN.md section 5, C02'),
    'C03': dict(
        technique='typestate traces of the executor; path analysis of the processor/accessor; who-may-call (closed '
                  'world) for execution entry points and process start; direct-effect analysis over resolved calls; '
                  'error-discipline and first-error-wins fold shapes; phase-adapter path analysis; decision tables',
        text='On every executor trace all symbol/pre-sandbox validation steps of all five phases and act parsing '
             'precede the creation of the sandbox (including the resolution of its root directory) and every '
             'executing step, and a failing validation ends with no sandbox; the processor reads, preprocesses, parses '
             'and transforms the whole file before the executor is reached and access errors end before execution; '
             'sandbox construction / execution entry points / process start primitives are referenced only from their '
             'allowed callers; the symbol command reaches nothing that executes; ~500 validators, parsers and '
             'symbol-usage getters reach no effect primitive through resolved calls; optional-error results are never '
             'dropped in the validation layers; the four phase adapters validate before they execute; the '
             'pre/post-sandbox step selection tables are as documented; symbol validation sees every usage. The command-line actor examines the act source to its end (typestate of the remainder check); every element of a validated sequence is checked (no element skipped); REC sweep over `test_case`.',
        design='DESIGN.md section 5, C03',
        note='Dynamic dispatch through the SDV/DDV/ADV layers is not followed by the effect analysis (stated limit).'),
    'C04': dict(
        technique='path analysis (incl. exceptional exits) of partial execution; executor trace model; who-may-call; '
                  'escape analysis of os.environ over the whole tree with a fixture positive control; constant '
                  'folding of the sandbox layout; argument-origin checks',
        text='Every path through partial execution restores the current directory after the executor ran and removes '
             'the sandbox exactly when --keep is off and the result carries one; every post-sandbox terminal carries '
             'the sandbox; act/ is made current directly after construction; os.chdir, sandbox construction and the '
             'user tmp directory are referenced only from their allowed places; no use of os.environ anywhere in the '
             'source writes it or lets the live mapping escape; instruction environments are copies; the layout and '
             'result file names fold to the documented ones; the keep flag reaches the executor from the reporter.',
        design='DESIGN.md section 5, C04'),
    'C19': dict(
        technique='who-may-call over process start primitives; exception-path analysis of the start site and its '
                  'wrapper; closed-world construction analysis of ProcessExecutionSettings; declared-type checks of '
                  'the settings argument at every user',
        text='Process start primitives occur only at the one site (plus the preprocessor, informational); that site '
             'uses a primitive that kills the child on timeout with timeout=settings.timeout_in_seconds and converts '
             'TimeoutExpired (and OSError/ValueError) to ProcessExecutionException, which its only caller converts to '
             'HardErrorException; every construction of ProcessExecutionSettings in the source takes its timeout from a '
             'live settings object and the timeout-dropping factories are unreferenced, so every value that can reach '
             'the site carries the timeout in force; environments are rebuilt per instruction from the live settings; '
             'the default folds to a positive number; only the timeout instruction changes it. The stdin text source is made from the environment in force when the action to check is executed, not when the stdin instruction runs.',
        design='DESIGN.md section 5, C19',
        note='Trusted: CPython subprocess.call kills and reaps the child when the timeout expires. Not decided: '
             'grandchildren of shell commands, wall-clock bounds.'),
    'C05': dict(
        technique='abstract evaluation of the matcher / transformer code on symbolic texts (a text is an explicit list '
                  'of 0-3 lines, each a symbol standing for any string followed by a new-line; symbolic string domain), '
                  'decision-table extraction, path analysis with recorded comparisons, option -> primitive table '
                  'agreement, constructor-argument plumbing sweep',
        text='Decides the routing / wiring clauses of the property - each a necessary condition of the documented '
             'behaviour - and NOT the behaviour of regular expressions or of the str primitives on arbitrary text, which '
             'is the semantics of re / str (no sound static argument in reach): is-empty is true exactly for the text '
             'without lines; each of the four comparison strategies of equals gives the match result exactly when an '
             'equality test between a text read from the expected side and one read from the actual side holds, '
             'compares the texts as read (nothing stripped or sliced), reads a prefix only with a minimum length '
             'computed from the whole other side that exceeds it, reads both files in equal chunks; the prefix reader '
             'returns whole lines in order and stops only when what it returns has reached the minimum; matches routes '
             '-full to fullmatch and its absence to search, on the whole text, verdict = a match was found; num-lines '
             'counts one per line; the line quantifiers are ALL / ANY folds (lazy, in order) over every line, numbered '
             'from 1, without its new-line; -transformed-by gives the verdict of the matcher on the transformed text; '
             'char-case and strip options are bound to the str primitives of their names and applied to every line; '
             'replace substitutes with (pattern, replacement, text) in their roles, keeps the new-line out of the '
             'substitution exactly with -preserve-new-lines, leaves lines not selected by -at unchanged; filter keeps '
             'exactly the matching lines as read (grep = filter on contents matches); identity returns its input; no '
             'construction in the matcher / transformer packages cross-wires two arguments; the three strip variants '
             'give the documented text for every text of 0-3 lines (symbolic lines, forks on empty / blank). 26 own-made mutants '
             '(tools/selftest_mutants.py) are each reported by the rule of their clause.',
        design='DESIGN.md section 5, C05',
        note='Composition with | is decided under C06-g / C10-h, the logical operators under C06-d, agreement of '
             'file / program-output / literal sources under C14 and C10-d, filter -line-nums under C13.'),
    'C06': dict(
        technique='abstract evaluation of the grammar tables; path-sensitive abstract interpretation of the '
                  'precedence-climbing parser against every bounded sequence of token-stream answers, compared with a '
                  'reference reading; fold-shape analysis of the combinators on explicit operand lists; constructor-'
                  'chain and who-may-construct checks',
        text='The standard grammar is evaluated from new_grammar: levels in order of increasing precedence are || then '
             '&&, prefix !; each operator is chained to the primitive combinator of that meaning with operands in '
             'order; only the known sites construct a Grammar and the five matcher types use the standard one. The '
             'infix parser is interpreted abstractly for every sequence of answers of the token stream (is the next '
             'token one of these operators?) up to a bound, in both layout modes: the operators asked for, the '
             'must-be-on-current-line flag of every question and primitive, and the expression tree built must equal '
             'the documented reading (left associative runs, operands from the strictly higher levels, line breaks '
             'free exactly inside parentheses); parentheses / prefix operator / plain primitive alternatives likewise. '
             'Conjunction / Disjunction / Negation are evaluated on explicit operand lists: ALL / ANY / NOT, lazily, '
             'operands applied in constructor order; the sequence transformer is evaluated on every identity pattern '
             'of up to three operands: left-to-right composition and identity flag. Parser errors are the syntax '
             'error exception and never caught. Components of prefix-like primitives are parsed as simple expressions unless delimited (frozen table of three), so a following && / || belongs to the enclosing expression.',
        design='DESIGN.md section 5, C06',
        note='Not decided: token-level layout (spaces), the primitives of each host type, bounded answer sequences '
             '(one level: 3 runs of 4 operands; two levels: one run of 3 operands).'),
    'C07': dict(
        technique='table agreement of phase registration and delivery; per-header typestate of the section switch; '
                  'path analysis of inclusion (visited-path test before parsing, no write to the including parser\'s '
                  'phase state, merge by extending the existing list)',
        text='Each of the six phases is registered with the instruction set of the same phase and delivered in the '
             'position of the same phase (default phase = act); every header line is tested against the known phases '
             'before it becomes current and a malformed header is an error; the resolved path of an included file is '
             'tested against the visited paths before it is parsed and the list handed on contains it; inclusion never '
             'writes the current-phase state of the including parser and merges by extending the existing list object '
             '(replacement only when the key is established to be absent); repeated phases reuse their list; the '
             'element source keeps every line. The act phase collects a line only when the end of the document has been excluded since the last consumed line; every ParseSource of a document file is constructed from the text as read; REC sweep over `section_document`. The root file is recorded as visited (resolved path); the inclusion chain of an error report is rendered link by link relative to the including file.',
        design='DESIGN.md section 5, C07',
        note='Not decided: line-number arithmetic of ParseSource.consume over all documents and comment / blank line '
             'handling (value level).'),
    'C08': dict(
        technique='executor trace model; path analysis with forked outcomes of the definition / reference validators; '
                  'per-iteration typestate of the transitive restriction check; who-may-mutate the symbol table; '
                  'table totality over the value types',
        text='Symbols are validated in execution order by one executor over one growing copy of the predefined table; '
             'on every path a duplicate definition is an error before anything is added, a definition is added only '
             'after all of its own references validated, an undefined or restricted reference is a VALIDATION_ERROR '
             'and a restriction failure is never dropped; the transitive check applies the indirect restriction to '
             'every referenced symbol and recurses into its references on every iteration (none skipped); the symbol '
             'table is mutated only by validation, the def instruction and the symbol command; the type table is total '
             'over the 13 value types and pairs each with its own parser; lists in strings join every element. A reference restricted to strings restricts the indirectly referenced symbols to strings too.',
        design='DESIGN.md section 5, C08'),
    'C10': dict(
        technique='argument-plumbing (keyword <-> attribute role table) at the process-start site; abstract evaluation '
                  'of the command translator and of every accumulate method on explicit component lists; sibling '
                  'agreement of result translators by decision tables over exit codes; writer/reader file agreement',
        text='subprocess.call gets argv, stdin, stdout, stderr, env, timeout and the shell flag from the attribute of '
             'that role and no cwd (the child inherits the test\'s current directory); the command translator gives one '
             'string for shell commands and [program] + arguments in order otherwise, total over the driver classes; '
             'every new_accumulated / new_with_additional_arguments keeps what a program already has before what is '
             'added (arguments, stdin, transformations), through symbol references, parsing and resolution; the stdin '
             'of the action to check is the program\'s stdin parts followed by the [setup] stdin; the exit code and the '
             'output files are written to the files of the result directory that the exit-code / stdout / stderr '
             'assertions read; every result translator agrees between its assertion and non-assertion forms, a '
             'non-zero exit code is FAIL in [assert] and HARD_ERROR elsewhere, -ignore-exit-code selects a translator '
             'that is successful for every exit code. Every StdFiles / StdOutputFiles for a child process gives every channel explicitly (the defaults are Exactly\'s own stdin/stdout/stderr); every text writer flushes its file object before handing it to a process (typestate); REC sweep over the process-execution data classes. Every returning path of the program-reference / command-program resolution keeps all accumulated components; the transformer-list resolvers denote the composition of exactly the non-identity operands in order.',
        design='DESIGN.md section 5, C10',
        note='Not decided: the argument vector denoted by arbitrary program syntax, the bytes the child receives.'),
    'C11': dict(
        technique='executor trace model (object identity of the settings across main steps); typestate of the '
                  'environment generators (age of the timeout read vs. loop iteration); typestate of the env appliers; '
                  'decision tables of applier selection; handler analysis of ${name} expansion',
        text='One InstructionSettings object and one setup-settings handler per execution reach every main step and the '
             'act executor; every instruction environment is built inside the per-instruction loop from a read of the '
             'live timeout/environment that is younger than the iteration; each env applier expands against and '
             'modifies the same set, populating it from the fresh default getter first; act / non-act selection and '
             'the setup / non-setup factories follow the documented table; an unknown ${name} expands to the empty '
             'string constant and nothing but the given set is consulted; only the timeout instruction writes the '
             'timeout; no process is started with cwd=.',
        design='DESIGN.md section 5, C11'),
    'C15': dict(
        technique='configuration-obligation and who-may-construct checks on the file-list layers; abstract evaluation '
                  'of constructors and layer methods on explicit entry lists; guard/path analysis of the name validator '
                  'and of file creation with forked OS outcomes; fold-shape analysis of quantifiers and matches; '
                  'table agreement of the file-type tables; who-may-call for symbolic-link resolution with a fixture '
                  'positive control',
        text='Every file-list entry composes _IsValidPosixPath(<its own name>) and the validator of its contents into '
             'its validator, and the list composes all entries; the name validator rejects absolute names and `..` '
             'parts on every path that accepts a name; primitive entries are constructed only from the validated '
             'layers and each is made at the populated directory followed by the parts of its own name, in the listed '
             'order through all four layers; _create_file refuses an existing path before opening anything and opens '
             'with mode "x"; Exists / ForAll and matches [-full] are ANY / ALL folds that stop at the deciding element; '
             '-selection composes a conjunction and -with-pruned a disjunction with the earlier matcher first, other '
             'components kept; the file-type tables (syntax token, stat predicate, path predicate, the two accessors, '
             'the type matcher) agree for each of the three types; nothing in the matcher / file-list packages '
             'resolves symbolic links. dir-contents-of looks at the destination with lstat() on every path (clash without following links); the recursive model is built from the stored depth limits (direct-contents shortcut only for max depth 0 and no min depth); application purity of matchers; REC sweep. `file` / `dir NAME =` refuse an existing name (pre-check without following links, or exclusive creation); the copy primitives of dir-contents-of dereference links.',
        design='DESIGN.md section 5, C15',
        note='Not decided: the tree produced or matched for a given list / matcher, depth limits, counting (value level).'),
    'C16': dict(
        technique='constant folding of the verdict sets (partition); decision tables of the progress and JUnit '
                  'reporters by abstract evaluation per kind of case result; typestate of the per-case loop and '
                  'enumeration; control-flow analysis of read errors, double inclusion and glob materialisation',
        text='The nine verdicts are partitioned into success / JUnit failure / JUnit error with success = {PASS, '
             'SKIPPED, XFAIL}; for each of the 13 kinds of case result the progress reporter ends OK exactly when the '
             'case is successful and JUnit counts failures+errors = 1 with a matching element exactly otherwise; each '
             'case is processed exactly once between begin/end in listing order and its result recorded; sub-suites '
             'are enumerated before the listing suite; a read error returns the read-error reporter (exit 3) before '
             'anything executes; an accepted sub-suite path is recorded as visited at once (resolved path; root '
             'pre-recorded); glob results are materialised inside the handler that converts pattern errors and are '
             'returned sorted. Fields of suite read errors that may be None are never dereferenced unguarded (a cycle back to the root suite stays INVALID_SUITE / 3).',
        design='DESIGN.md section 5, C16'),
    'C17': dict(
        technique='freshness-chain (copy) analysis of per-case values; module-state scan; path-sensitive composition '
                  'analysis of the suite-contents transformer; who-may-call + decision table of the handling-setup '
                  'resolution',
        text='Symbol tables and environment dicts are copied at least once, per case, between the configuration '
             'shared by all cases of the process and the place instructions mutate them; execution modules have no '
             'global statement or process-wide cache; suite contents precede the case\'s in every phase except cleanup '
             'and on every path of the concatenation both operands are kept unless the path condition says one is '
             'empty; standalone and suite runs derive the handling setup through the same function, with --suite '
             'before exactly.suite beside the case before the default; cases use the setup of the suite that lists '
             'them, sub-suites start from the default. `resolve(symbols)` of every symbol-dependent value leaves the object it is called on unchanged (mutation summaries; a memo replaced whenever the freshly computed key differs is recognised) - the instructions of a suite file are parsed once and resolved for every case. The configuration builder is constructed per case; resolve changes neither its object nor the symbol table or anything looked up in it; the processors of a suite keep no state in apply.',
        design='DESIGN.md section 5, C17'),
    'C12': dict(
        technique='constant folding of relativity tables and destination configurations; alias/mutation analysis of the '
                  'shared relativity sets; statelessness (attribute-write) analysis of path values; decision table of '
                  'the relativity restriction; plumbing of accepted variants into symbol-reference restrictions; '
                  'completeness of reported references; guard analysis of root/suffix joins',
        text='Every relativity has exactly one resolver whose own relativity and directory getter agree with its key '
             '(tables and per-partition enums); -rel-cd reads the current directory when resolved and path values '
             'store no state after construction; the destination configurations of file, dir and copy fold to subsets '
             'of {act, tmp, cd} without absolute and are the ones given to the destination parsers; the shared '
             'relativity sets are never mutated in place; an option outside the accepted set is a syntax error on '
             'every path; every symbol reference a path argument can produce carries the restriction built from that '
             'argument\'s accepted variants, and the restriction tests the resolved relativity as documented; every '
             'symbol-dependent value an instruction is built from is reported for validation. The unguarded '
             'root/suffix joins (absolute suffix escapes the root) are a known finding (D6). `stacked(base, suffix)` stacks exactly its arguments and every value of a stacked path is <value of the base> / <the stacked suffix>; REC sweep over `tcfs` and the path types. The builtin directory symbols and environment variables name the root of the relativity whose directory has that name; no value function of the generic DDV layer stores what it computes from its arguments (a -rel-cd path is computed at each use).',
        design='DESIGN.md section 5, C12',
        note='Known finding D6 (6 join sites) is listed in known_findings.json.'),
    'C09': dict(
        technique='configuration-obligation analysis of the shlex lexer (attribute writes on the constructed object '
                  'along every path); decision table of quoting routing; folded delimiter constants vs literal '
                  'offsets; typestate of the token stream for lexer errors',
        text='The lexer that tokenises test-case source is constructed in posix mode with whitespace splitting, no '
             'comment characters and no escape characters on every path, and every lexer of the stream comes from that '
             'constructor; a hard-quoted token becomes one constant and is never searched for symbol references, every '
             'other token is; literal offsets equal the folded delimiter lengths; an unterminated quote is remembered '
             'and raised as TokenSyntaxError by the next consume, and every handler of it reports a syntax error. Discard typestate (the rest of a line is thrown away only when known), affine offsets of the symbol-reference scanner, here-document body (only marker / end of source end it; body = the lines before the marker), and: a quoted word is never an option (option matches use the source string; is_option demands an unquoted token; decision table of the matcher). The text of a here-document is decided over symbolic lines (every line followed by a new-line, the empty line included); every option match in the source tree is made against the source string of the token or after it was seen to have option syntax.',
        design='DESIGN.md section 5, C09',
        note='Only lexer configuration and quoting routing are decided; token boundaries and here-document bodies are '
             'value-level.'),
    'C18': dict(
        technique='handler-table extraction by exception-path analysis; evaluator sweep by resolved callee with '
                  'handler-coverage check (fixture positive control); visitor totality (thorough)',
        text='The instruction-parser dispatcher converts argument errors to syntax errors and everything else to the '
             'implementation-error exception; the parse-error handler is total; every call in the source that hands '
             'non-constant text to a Python evaluator (eval, re.compile, Pattern.sub template, PurePath.match, '
             'Path.glob) is enclosed - in its function or at all its call sites - by handlers covering what the '
             'evaluator raises on ill-formed text and converting it to the repository\'s error channel; the integer '
             'evaluator maps every exception class of eval to "not an integer" and the integer / regex validators '
             'report it in the applicable step. Format templates are constants (user text is an argument, never part of the template - messages are rendered lazily outside every handler); the document / instruction parsers use no raising search (`index`) without a handler; first-character tests on remaining source are guarded. A field that is only ever None is never used as a value (contradiction rule; found defect D18).',
        design='DESIGN.md section 5, C18',
        note='Decides the known evaluator kinds listed in the checker (table EVALUATORS); "whatever text" as such is not '
             'decided.'),
    'C13': dict(
        technique='taint analysis over abstract values (source: the hull returned by combinations.union, through '
                  'functools.reduce and function-valued parameters; sink: receiver of .inversion); dual-operator and '
                  'De Morgan shape checks; decision tables of the constant / unknown-matcher cases',
        text='The interval that limits how much input filter reads must over-approximate the selected lines: no path '
             'of the combination visitors takes the inversion of a union (convex hull), the inversion of a combination '
             'is built with the dual operator over the operands\' inversions, the negation evaluator rewrites && / || '
             'into the dual over negated operands and constants into the opposite constant, matchers of unknown kind '
             'are never narrowed in either polarity, and the interval classes\' own inversions are exact complements '
             '(+1 / -1). Applying a primitive does not change it: mutation summaries over resolved calls show that no application method of any string transformer / matcher changes state stored in the object, directly or by handing it on. accept(visitor) of the four standard matchers hands over its own components through the visit method of its own kind; the value records of ranges / intervals hold what they are constructed with.',
        design='DESIGN.md section 5, C13',
        note='Only these soundness clauses are decided; the arithmetic of bounds, -line-nums range merging and '
             'negative indices are value-level and not claimed.'),
    'C14': dict(
        technique='sibling classification of all as_lines implementations by the origin of the line iterator; sweep of '
                  'the text-value modules for str.splitlines / filecmp / binary-mode open / newline= arguments; '
                  'delegation agreement and caching typestate of the freezing wrapper',
        text='All non-delegating implementations of as_lines split at newline only (a text file object or the '
             'repository\'s newline splitter) - none uses str.splitlines; the ~140 modules that handle texts as values '
             'contain no str.splitlines, no filecmp and no binary-mode open, so every access sees the text in text '
             'mode; the freezing wrapper takes all five views from the one contents object it caches on first use and '
             'produces it via write_to; no text is opened with a newline= argument and the spooled buffer keeps "\\n". The in-memory line splitter gives no empty line element; no one-shot iterator is kept in an attribute anywhere (a cached as_lines stays readable); the spooled text file never writes to the in-memory buffer after the roll-over to disk replaced it.',
        design='DESIGN.md section 5, C14',
        note='Representation agreement only; equality of characters across representations and buffer-size '
             'boundaries are not decided.'),
    'C20': dict(
        technique='table agreement over folded registries; abstract evaluation of setup constructors with taint of '
                  'the registered name; origin chains (argument plumbing) from the main program to the help builders; '
                  'totality of visitors; sibling agreement of anchor-id and href rendering; configuration obligation '
                  'for URL references',
        text='The five phase tables and the suite table are literal (name, setup) lists with distinct folded names and '
             'setups from the package of their phase; each of the ~50 setup constructors returns one '
             'SingleInstructionSetup whose documentation is built with the registered name; the help is built from the '
             'instruction setup of the parsing setup in use and phase_helps_for builds the help of every phase from the '
             'instruction set of that phase; the suite help lists exactly the sections the suite reader registers; for '
             'actors, types, directives, configuration parameters and suite reporters the help list documents exactly '
             'the defined constants, and the accepted-type table of def, the reporter table of the suite command and '
             'the [conf] instruction names cover the same sets; the entity-type registry is total; every '
             'cross-reference visitor implements every target kind; anchor ids are target_renderer.apply(target) '
             'and hrefs "#" + the same; URL references are never in-document; id prefixes of target kinds are prefix '
             'free. Decision table of the help request router over the folded keyword tables (`help PHASE`, `help PHASE INSTRUCTION`, `help ENTITY-TYPE` for every phase and entity type); every entity type is rendered exactly once in the HTML manual (exclusion list vs filter key, by kind of value); REC sweep over the help structures. A help listing that is a one-shot iterator is only accepted when the entity-type record materialises it.',
        design='DESIGN.md section 5, C20',
        note='Not decided: that every help page renders, that every href in the generated HTML has exactly one id '
             '(needs the document to be built - running the program).'),
}


# clauses added in the rounds of 2026-09-28 (appended to the text of the property)
ADDED = {
    'C02': 'An exit code is compared with 0 by == / != only (a preprocessor killed by a signal is a failure). Every visit method of the handler a ParseError is given to raises the access error (a parse error is never lost).',
    'C01': 'The failure of an ATC step is made from the status the actor\'s answer carries. execute_phase_prim is evaluated with one explicit element of each kind (instructions are executed, comments and empty elements are not); each step action of the ATC executor raises the failure of its step exactly when the answer of the actor says not successful. The translation of a failing configuration instruction is a decision table obtained by abstract evaluation of the translating function for every kind of failure and every `status` setting (the kind is reported as it is, whatever the status).',
    'C03': 'No failure is swallowed in validators and resolvers: no try around a loop whose handler does not raise, no handler that only passes / returns None outside a table of confirmed ones, no `x or None`. In the branch where a value has just been found None / false no attribute of it is read (an optional validator is consulted when present, not when absent). Validators and assertion parts that an object keeps and traverses in both validation rounds are never one-shot iterators (generator expressions, map, filter handed to a constructor that stores them).',
    'C05': 'Every way the replacer can be constructed is analysed (a flag set in the constructor selects a path): on each the text is substituted by the compiled pattern itself.',
    'C07': 'The location path of an element is the inclusion chain followed by the element (explicit chain). The document parser and the act-phase parser recognise a section header by one and the same predicate (resolved callee identity).',
    'C09': 'A lexer that has raised is replaced by a new one in the handler. The kind of quoting of a token is read from the first character of its source text. A rest-of-line string (`:> TEXT`) is exactly one reading of the rest of the line, optionally stripped; where the scanner has found a reference the fragments end with the symbol fragment of its name on every path.',
    'C10': 'Exit codes are compared with 0 by == / != only (whole impls tree). The code that runs the action to check does not read the text of stdin itself (a program used as text source would run twice).',
    'C11': 'The expression that recognises ${NAME} references (regular-expression syntax tree) accepts every name env can set. No swallowed failures in the env / timeout / settings modules (a change meant for both sets is made to both). The act set reaches the process unchanged through AtcExecutionInputAdv.resolve (None stays None); an environment emptied by `env unset` is never treated like "inherit" (no truth test of an optional mapping); REC of the settings records (the getter of a kept parameter hands out the kept value).',
    'C12': 'What is given for -rel-cd is the result of reading the current directory on every path (also when the reading fails). A path built from a path-or-string symbol gets the default relativity of the argument being parsed at every construction; the transitive part of a reference restriction examines every reference of every definition (fold with two checks per element, going on after a passing element).',
    'C13': 'A line number counted from the end is translated to <number of lines> + n + 1, and to 0 (no line) when that reaches before the first line (constant and affine form of the clamp). The limits of union / intersection are a decision table over which limits the operands have (unlimited, lower, upper, finite; symbolic numbers): unlimited as soon as one / only when both operands are, otherwise min / max of exactly the two limits. Optional numbers are never tested by truth value (0 is a limit).',
    'C14': 'The attribute caching the text as a file is assigned None or the result of the call that writes the whole file. What as_lines hands out is a one-shot iterator, never a list; no one-shot iterator is handed to a constructor that keeps and traverses it; no open() passes newline=, encoding= or errors=; the two outcomes of freezing through the spooled buffer (kept in memory / moved to disk) must treat line ends alike - they do not (KNOWN FINDING D20).',
    'C15': 'Depth limits of 0 are limits (no truth test of an optional number); makers that create through package helpers are followed; the recursive listing schedules a directory independently of what the walk has seen; in `matches` (non-full) a listed file that does not satisfy its matcher decides the verdict on every path.',
    'C16': 'Every glob match is examined by the path resolver (none filtered away first). JUnit <error> / <failure> elements are recognised by role (construction of the XML element, helpers interpreted); every raising file-system query on a path from a suite file is inside a handler for OSError that raises the suite error (found defect D19, fixed); wildcards are matched by pathlib (names beginning with a dot are matched).',
    'C17': 'A suite that cannot be read fails the standalone run (may-raise fork); the default suite is looked for beside the case file as named. The [conf] section of a suite is partitioned: every element is in exactly one of the suite part and the part contributed to the cases. Every suite of a hierarchy is resolved against the default handling setup of the reading environment (value origin through parameters and call sites, not the name of the method); the case file and the --suite file of a standalone run are the files as named (no resolution of links); no method writes a container bound in a class body (whole tree).',
    'C18': 'No attribute of a value just found None / false is read (whole tree). Handlers that turn a parse failure into a syntax error need no current line of a source that may have been consumed to its end (members whose docstring states the precondition, followed through the functions the source is handed to); the optional positions of re.error are not used as numbers unguarded.',
    'C19': 'Every handler of the process executor ends by raising its exception (no exit code is made up for a process that never ran); no `x or None` / swallowing handlers in the timeout and process modules. Every instruction environment the executor builds carries settings made from the live instruction settings at that moment (not a stored snapshot); a timeout of 0 is a timeout (no truth test of an optional number).',
    'C20': 'A name that is not an instruction of the phase / section asked for fails the help request (may-raise fork of the lookup). Each predefined part of the manual is the fixed root target of exactly one section. No memo shared by all sections / entities (no method writes a class-level container); the name lookup behind `help X NAME` is evaluated over lists of 1-3 symbolic keys and every relation of the pattern to each key: an identical key wins wherever it stands.',
}

NOT_APPLICABLE = {
}

PENDING_REASON = 'check under construction in this round - not claimed until it is silent on the unchanged tree and self-tested'


def main():
    props = [json.loads(l) for l in open(os.path.join(VERIF, 'properties.jsonl'))]
    checks = []
    na = []
    for p in props:
        pid = p['id']
        if pid in CLAIMED:
            e = CLAIMED[pid]
            checks.append({
                'property_id': pid,
                'quick_cmd': './verify check %s --tier quick' % pid,
                'thorough_cmd': './verify check %s --tier thorough' % pid,
                'evidence_file': 'evidence/%s.json' % pid,
                'replay_cmd_template': './verify check %s --tier quick   # replay file {path} names rule, construct '
                                       'and location; the rule is re-run on the current tree' % pid,
                'engine': 'sa',
                'level_claimed': {'category': 'other', 'text': e['text'] + (' ' + ADDED[pid] if pid in ADDED else ''),
                                  'design_ref': e['design']},
                'level_note': COMMON_NOTE + (' ' + e['note'] if e.get('note') else ''),
                'technique': 'static analysis: ' + e['technique'],
            })
        else:
            na.append({'property_id': pid, 'reason': NOT_APPLICABLE.get(pid, PENDING_REASON)})
    man = {
        'version': 1,
        'setup_cmd': './verify selfcheck',
        'hooks': {
            'guard': 'EMILKARLEN_EXACTLY_VERIF',
            'enable': 'no hooks: the checks are static analyses of /repo/src and instrument nothing; the guard is '
                      'unused. The only commits to /repo are the unguarded "fix:" repairs listed in known_findings.json',
            'baseline_off_cmd': 'cd /repo && /venv/bin/python -m pytest -ra -q -p no:cacheprovider --timeout=900 '
                                '--continue-on-collection-errors',
            'source_commits': [],
            'add_only': True,
        },
        'engines': [{
            'name': 'sa',
            'path': 'sa/',
            'serves_properties': sorted(CLAIMED),
            'kind_free_text': 'repository-specific static analyser on Python ast: module index + resolver + class '
                              'hierarchy, constant folder, syntax-directed path/typestate interpreter, who-may-call '
                              'queries; one rule module per property under sa/rules',
        }],
        'checks': checks,
        'not_applicable': na,
        'notes': 'Static analysis only: no check runs Exactly or its tests. Exit codes: 0 holds, 1 VIOLATION, '
                 '2 ANALYSIS-ERROR. See DESIGN.md.',
    }
    with open(os.path.join(VERIF, 'MANIFEST.json'), 'w') as f:
        json.dump(man, f, indent=1)
    print('checks:', [c['property_id'] for c in checks])


if __name__ == '__main__':
    main()
