"""Positive control of the SWALLOW rules: EXPECT lines are reported."""


def apply_all(appliers, env):
    try:  # EXPECT loop-swallow
        for a in appliers:
            a.apply(env)
    except KeyError:
        pass  # EXPECT handler-none


def apply_each(appliers, env):
    for a in appliers:
        try:
            a.apply(env)
        except KeyError:
            pass  # EXPECT handler-none


def validate(path):
    try:
        path.stat()
    except OSError:
        return None  # EXPECT handler-none
    return 'exists'


def convert(path):
    try:
        path.stat()
    except OSError as ex:
        raise ValueError(str(ex))


def limit(seconds):
    return seconds or None  # EXPECT or-none
