"""Positive control of C14-g: a one-shot iterator kept in an attribute."""
import itertools


def lines_of(s: str):
    start = 0
    end = s.find('\n')
    while end != -1:
        yield s[start:end + 1]
        start = end + 1
        end = s.find('\n', start)


def lines_of__list(s: str):
    return list(lines_of(s))


class Cached:
    def __init__(self, contents: str):
        self._contents = contents
        self._lines = None
        self._pairs = None
        self._ok = None

    def as_lines(self):
        if self._lines is None:
            self._lines = lines_of(self._contents)  # EXPECT one-shot
        return iter(self._lines)

    def pairs(self):
        if self._pairs is None:
            self._pairs = map(len, self._contents.split())  # EXPECT one-shot
        return self._pairs

    def chained(self):
        self._ok = list(itertools.chain(self._contents, 'x'))
        return self._ok

    def fine(self):
        if self._ok is None:
            self._ok = lines_of__list(self._contents)
        return iter(self._ok)


class AndValidator:
    def __init__(self, validators):
        self.validators = validators

    def validate_pre(self):
        return [v for v in self.validators]

    def validate_post(self):
        return [v for v in self.validators]


class Consumer:
    def __init__(self, items):
        self._n = len(list(items))


def make(parts):
    a = AndValidator(p.validator for p in parts)  # EXPECT one-shot
    b = AndValidator([p.validator for p in parts])
    c = Consumer(p for p in parts)  # consumed in the constructor, not kept
    return a, b, c
