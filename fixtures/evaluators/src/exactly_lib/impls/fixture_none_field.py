"""Positive control of C18-h: a field that is only ever None, used as a value."""


class Broken:
    def __init__(self, getter):
        self._getter = getter
        self._dirs = None

    def first(self, env):
        return self._getter(env.symbols).check(env.dirs)

    def second(self, env):
        return self._getter(env.symbols).check(make(self._dirs, env.other))  # EXPECT none-field


class Fine:
    def __init__(self, getter):
        self._getter = getter
        self._dirs = None
        self._cache = None

    def first(self, env):
        self._dirs = env.dirs
        return self._getter(env.symbols).check(env.dirs)

    def second(self, env):
        if self._cache is None:
            self._cache = make(self._dirs, env.other)
        return self._cache


class Placeholder:
    """a field that stays None and is only handed on / tested: nothing to report"""

    def __init__(self):
        self._source_location = None

    @property
    def source_location(self):
        return self._source_location

    def has_location(self) -> bool:
        return self._source_location is not None


def make(a, b):
    return a, b
