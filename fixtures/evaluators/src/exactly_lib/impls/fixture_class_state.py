"""Positive control of "no container shared by all instances is written by a method": EXPECT lines are reported."""


class Info:
    _targets = {}
    _seen = []
    NAMES = ('a', 'b')          # immutable: fine
    _table = {'a': 1}           # never written by a method: fine

    def __init__(self, name):
        self._name = name
        self._own = {}

    def target(self, instruction_name):
        try:
            return self._targets[instruction_name]
        except KeyError:
            ret_val = (self._name, instruction_name)
            self._targets[instruction_name] = ret_val  # EXPECT shared
            return ret_val

    def note(self, x):
        self._seen.append(x)  # EXPECT shared
        self._own[x] = 1      # instance state: fine

    def lookup(self, k):
        return self._table[k]


class Sub(Info):
    def note2(self, x):
        Info._seen.append(x)  # EXPECT shared
