"""Positive control of C18-f: format templates assembled from non-constant text (must be seen on every run)."""


def message_of(value: str, detail: str) -> str:
    return ('Not an integer: {}' + detail).format(value)  # EXPECT template


def message_of_2(value: str, detail: str) -> str:
    return f'Not an integer: {{}} {detail}'.format(value)  # EXPECT template


def fine(value: str, detail: str) -> str:
    return 'Not an integer: {} {}'.format(value, detail)


def end_of_line(source: str, pos: int) -> int:
    return source.index('\n', pos)  # EXPECT index


def end_of_line_ok(source: str, pos: int) -> int:
    try:
        return source.index('\n', pos)
    except ValueError:
        return len(source)
