"""Positive control of C18-i (optional attributes of re.error used as numbers)."""
import re


def compile_1(pattern: str):
    try:
        return re.compile(pattern)
    except re.error as ex:
        col = ex.colno - 1  # EXPECT optional
        raise ValueError(' ' * col + '^')


def compile_2(pattern: str):
    try:
        return re.compile(pattern)
    except re.error as ex:
        if ex.pos is not None:
            return pattern[:ex.pos]
        return str(ex.msg)


def compile_3(pattern: str):
    try:
        return re.compile(pattern)
    except (ValueError, re.error) as ex:
        return pattern[ex.pos:]  # EXPECT optional


def message(pattern: str, ex: re.error) -> str:
    line = pattern.split('\n')[ex.lineno - 1]  # EXPECT optional
    return line
