"""Positive control of C17-g (unkeyed memo): a value computed from the arguments of the first call, kept for all."""


class Validator:
    def __init__(self, get_validator):
        self._get_validator = get_validator
        self._validator = None
        self._key = None
        self._dirs = None

    def validate_pre_sds_if_applicable(self, environment):
        self._dirs = environment.hds    # stored afresh at every call: not a memo
        return self._validator_for(environment.symbols).validate(environment.hds)

    def _validator_for(self, symbols):
        if self._validator is None:
            self._validator = self._get_validator(symbols)  # EXPECT memo
        return self._validator

    def _validator_for__else(self, symbols):
        if self._validator is not None:
            return self._validator
        else:
            v = self._get_validator(symbols)
            self._validator = v  # EXPECT memo
            return v

    def keyed(self, symbols):
        key = symbols.names()
        if key != self._key:
            self._key = key
            self._validator = self._get_validator(symbols)
        return self._validator

    def lazy_constant(self):
        if self._validator is None:
            self._validator = self._get_validator(None)
        return self._validator
