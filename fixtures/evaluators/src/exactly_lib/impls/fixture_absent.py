"""Positive control of "a value found absent is not used": EXPECT lines are reported."""


class Both:
    def __init__(self, pre=None, post=None):
        self._pre = pre
        self._post = post

    def validate_pre(self, env):
        if self._pre:
            self._pre.validate(env)

    def validate_post(self, env):
        if not self._post:
            self._post.validate(env)  # EXPECT absent

    def message(self, err):
        if err is None:
            return err.render()  # EXPECT absent
        return None

    def other(self, x):
        if x is not None:
            return x.value
        else:
            return x.default  # EXPECT absent

    def reassigned(self, x):
        if x is None:
            x = self._pre
            return x.value
        return x


class Collector:
    def __init__(self):
        self._items = []

    def add_first(self, x):
        if not self._items:
            self._items.append(x)   # an empty list is not absent: fine
        return self._items
