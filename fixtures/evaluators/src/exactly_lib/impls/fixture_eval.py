"""Positive control for rule C18-b (never imported, never run): calls marked EXPECT hand text to an evaluator
without converting what it raises; the others are covered."""
import re
from pathlib import Path


class UserError(Exception):
    pass


def covered_eval(s):
    try:
        return eval(s)
    except Exception as ex:
        raise UserError(str(ex))


def covered_compile(s):
    try:
        return re.compile(s)
    except re.error as ex:
        return 'invalid regex: ' + str(ex)


def bare_eval(s):
    return eval(s)  # EXPECT


def too_narrow_eval(s):
    try:
        return eval(s)  # EXPECT
    except (SyntaxError, ValueError, TypeError, NameError) as ex:
        raise UserError(str(ex))


def bare_compile(s):
    return re.compile(s)  # EXPECT


def bare_glob(d: Path, pattern):
    return sorted(d.glob(pattern))  # EXPECT


def swallowing_handler(s):
    try:
        return re.compile(s)  # EXPECT
    except re.error:
        pass
