"""positive control of C16-g: a record field that may be None, dereferenced with and without a guard"""
import pathlib
from typing import Optional


class ReadError(Exception):
    def __init__(self, suite_file: pathlib.Path, first_seen_in: pathlib.Path, maybe: Optional[pathlib.Path]):
        self._suite_file = suite_file
        self._first_seen_in = first_seen_in
        self._maybe = maybe

    @property
    def suite_file(self) -> pathlib.Path:
        return self._suite_file

    @property
    def first_seen_in(self) -> pathlib.Path:
        return self._first_seen_in

    @property
    def maybe(self) -> Optional[pathlib.Path]:
        return self._maybe


class Reader:
    def __init__(self, root: pathlib.Path):
        self._visited = {root: None}

    def read(self, path: pathlib.Path, including: pathlib.Path):
        if path in self._visited:
            raise ReadError(path, self._visited[path], None)
        self._visited[path] = including


def render_unguarded(ex: ReadError) -> str:
    return str(ex.first_seen_in.resolve())  # EXPECT deref


def render_unguarded_optional(ex: ReadError) -> str:
    return ex.maybe.name  # EXPECT deref


def render_guarded(ex: ReadError) -> str:
    if ex.first_seen_in is not None:
        return str(ex.first_seen_in.resolve())
    return str(ex.suite_file.resolve())


def render_guarded_by_truth(ex: ReadError) -> str:
    return str(ex.first_seen_in.resolve()) if ex.first_seen_in else ''


def render_other_field(ex: ReadError) -> str:
    return str(ex.suite_file.resolve())
