"""Positive control for rule C04-d (never imported, never run): every line marked EXPECT must be reported,
every other use of os.environ must not."""
import os
from os import environ as the_env


def reads_only():
    a = dict(os.environ)
    b = os.environ.get('HOME')
    c = 'X' in os.environ
    d = os.environ['PATH']
    e = os.environ.copy()
    f = {**os.environ}
    for k in os.environ:
        pass
    return a, b, c, d, e, f


def writes_item():
    os.environ['X'] = '1'  # EXPECT


def deletes_item():
    del os.environ['X']  # EXPECT


def updates():
    os.environ.update({'X': '1'})  # EXPECT


def pops():
    os.environ.pop('X', None)  # EXPECT


def putenv():
    os.putenv('X', '1')  # EXPECT


def escapes_by_return():
    return os.environ  # EXPECT


def escapes_by_alias():
    e = the_env  # EXPECT
    return e


def escapes_as_argument(f):
    return f(os.environ)  # EXPECT
