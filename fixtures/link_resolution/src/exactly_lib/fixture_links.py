"""Positive control of C15-f: code that resolves symbolic links (must be seen by the scanner on every run)."""
import os.path
import pathlib


def name_of(path: pathlib.Path) -> str:
    return path.resolve().name


def real(path: str) -> str:
    return os.path.realpath(path)


def resolve_symbols(sdv, symbols):
    # not a link resolution: takes an argument
    return sdv.resolve(symbols)
