"""Positive control of the rule "0 is a value, not 'absent'": every line marked EXPECT must be reported,
no other line may be."""
import sys
from typing import Optional


class Limits:
    def __init__(self, min_depth: Optional[int] = None, max_depth: Optional[int] = None, name: Optional[str] = None):
        self._min_depth = min_depth or 0  # EXPECT truth
        self._max_depth = max_depth
        self._name = name or 'x'  # a string: not reported

    def max_depth(self) -> Optional[int]:
        return self._max_depth

    def within(self, depth: int) -> bool:
        if self._max_depth:  # EXPECT truth
            return depth <= self._max_depth
        return True

    def within_ok(self, depth: int) -> bool:
        return self._max_depth is None or depth <= self._max_depth

    def via_getter(self, depth: int) -> bool:
        m = self.max_depth()
        return sys.maxsize if not m else m  # EXPECT truth


def timeout_of(seconds: Optional[int]) -> int:
    return seconds if seconds else 60  # EXPECT truth


def timeout_ok(seconds: Optional[int]) -> int:
    return 60 if seconds is None else seconds


class Settings:
    def __init__(self, timeout_in_seconds: Optional[int]):
        self._timeout = timeout_in_seconds

    @property
    def timeout_in_seconds(self) -> Optional[int]:
        return self._timeout

    def timeout(self) -> Optional[int]:
        return self._timeout


def uses_settings(settings: Settings) -> int:
    a = settings.timeout_in_seconds or 60  # EXPECT truth
    b = 1 if settings.timeout() else 2  # EXPECT truth
    c = 3 if settings.timeout_in_seconds is None else 4
    return a + b + c
